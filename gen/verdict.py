"""Compile-verdict monitor: many cases in a few crates, rustc's verdict per case by span attribution,
fixpoint rebuilds until the surviving set compiles cleanly (which proves acceptance)."""
import json, os, shutil, time
from dataclasses import dataclass, field
from typing import Optional
from .common import *
from . import cratebuild


@dataclass
class Case:
    id: str                      # rust identifier: module name
    body: str                    # module body (items)
    expect: str                  # MUST_ACCEPT | MUST_REJECT | UNSPECIFIED
    rule: str                    # which rule of the statement / matrix cell this case exercises
    control_of: Optional[str] = None   # id of the negative case this is the positive control of
    note: str = ""
    group: str = ""              # feature-set / crate group


class VerdictCrate:
    def __init__(self, name, features, default_features=True, no_std=False, extra_deps="", with_nvrt=False, nshards=8, crate_attrs="", alloc=True, as_dependency=False):
        self.name = name
        self.dir = os.path.join(WORK, name)
        self.features = features
        self.default_features = default_features
        self.no_std = no_std
        self.extra_deps = extra_deps
        self.with_nvrt = with_nvrt
        self.nshards = nshards
        self.crate_attrs = crate_attrs
        self.alloc = alloc
        self.as_dependency = as_dependency   # the case crates are path dependencies of an `app` crate, not workspace members (cargo does not mark them primary)
        self.target = os.path.join(WORK, "target-nostd" if no_std else "target")
        self.ranges = {}
        self.prefix = "v_" + "".join(c if c.isalnum() else "_" for c in name) + "_"

    def write(self, cases):
        n = max(1, min(self.nshards, (len(cases) + 19) // 20))
        shards = [[] for _ in range(n)]
        for i, c in enumerate(cases):
            shards[i % n].append(c)
        members = []
        self.ranges = {}
        for k, cs in enumerate(shards):
            cname = "%s%02d" % (self.prefix, k)
            members.append(cname)
            head = ["#![allow(dead_code, unused_imports, unused_variables, unused_mut, non_snake_case, non_camel_case_types, unused_unsafe, unreachable_code, clippy::all)]"]
            if self.no_std:
                head.insert(0, "#![no_std]")
                if self.alloc:
                    head.append("extern crate alloc;")
            if self.crate_attrs:
                head.append(self.crate_attrs)
            lines = list(head)
            ranges = []
            line = len(head) + 1
            for c in cs:
                text = "pub mod %s {\n%s\n}\n" % (c.id, c.body.rstrip("\n"))
                nl = text.count("\n")
                ranges.append((line, line + nl - 1, c.id))
                lines.append(text.rstrip("\n"))
                line += nl
            write_if_changed(os.path.join(self.dir, cname, "src", "lib.rs"), "\n".join(lines) + "\n")
            self.ranges[os.path.join(cname, "src", "lib.rs")] = ranges
            feats = ", ".join('"%s"' % f for f in self.features)
            deps = 'nutype = { path = "%s/nutype", default-features = %s, features = [%s] }\n' % (REPO, "true" if self.default_features else "false", feats)
            deps += self.extra_deps
            if self.with_nvrt:
                deps += 'nvrt = { path = "%s/rt" }\n' % VERIF
            write_if_changed(os.path.join(self.dir, cname, "Cargo.toml"), '[package]\nname = "%s"\nversion = "0.1.0"\nedition = "2021"\n\n[dependencies]\n%s' % (cname, deps))
        if os.path.isdir(self.dir):
            for e in os.listdir(self.dir):
                if e.startswith("v") and os.path.isdir(os.path.join(self.dir, e, "src")) and e not in members:
                    shutil.rmtree(os.path.join(self.dir, e), ignore_errors=True)
        if self.as_dependency:
            app = self.prefix + "app"
            write_if_changed(os.path.join(self.dir, app, "src", "lib.rs"), "".join("pub use %s as _%s;\n" % (m, m) for m in members))
            write_if_changed(os.path.join(self.dir, app, "Cargo.toml"), '[package]\nname = "%s"\nversion = "0.1.0"\nedition = "2021"\n\n[dependencies]\n%s' % (
                app, "".join('%s = { path = "../%s" }\n' % (m, m) for m in members)))
            ws = '[workspace]\nresolver = "2"\nmembers = ["%s"]\nexclude = [%s]\n\n[profile.dev]\nopt-level = 0\ndebug = 0\nincremental = false\n' % (app, ", ".join('"%s"' % m for m in members))
        else:
            ws = '[workspace]\nresolver = "2"\nmembers = [%s]\n\n[profile.dev]\nopt-level = 0\ndebug = 0\nincremental = false\n' % ", ".join('"%s"' % m for m in members)
        write_if_changed(os.path.join(self.dir, "Cargo.toml"), ws)
        lock = os.path.join(self.dir, "Cargo.lock")
        if not os.path.exists(lock):
            shutil.copy(os.path.join(REPO, "Cargo.lock"), lock)

    def attribute(self, diags):
        by, un = {}, []
        for d in diags:
            hit = None
            for sp in d["spans"]:
                fn = sp["file_name"]
                for key, ranges in self.ranges.items():
                    if fn.endswith(key):
                        for (a, b, cid) in ranges:
                            if a <= sp["line_start"] <= b:
                                hit = cid
                                break
                    if hit:
                        break
                if hit:
                    break
            if hit:
                by.setdefault(hit, []).append(d)
            else:
                un.append(d)
        return by, un


def run_verdicts(vc: VerdictCrate, cases, log=None, max_rounds=8, toolchain=None, cmd="check", extra_args=()):
    """returns ({case_id: {"verdict": accepted|rejected, "errors": [...]}}, info) or raises Inconclusive"""
    out = {}
    alive = list(cases)
    t0 = time.time()
    rounds = 0
    while True:
        rounds += 1
        if rounds > max_rounds:
            raise Inconclusive("verdict build for %s did not reach a fixpoint in %d rounds" % (vc.name, max_rounds))
        vc.write(alive)
        argv = ["cargo"] + (["+" + toolchain] if toolchain else []) + [cmd, "--offline", "--message-format=json", "--keep-going", "-q"] + list(extra_args)
        rc, diags, err, dt = cratebuild.cargo_json(argv, vc.dir, vc.target)
        if rc == 0:
            for c in alive:
                out[c.id] = {"verdict": "accepted", "errors": []}
            break
        by, un = vc.attribute(diags)
        if log:
            log("verdict %s round %d: %d cases, %d errors -> %d rejected, %d unattributed" % (vc.name, rounds, len(alive), len(diags), len(by), len(un)))
        if not by:
            raise Inconclusive("verdict build for %s fails without attributable errors: %s | %s" % (vc.name, err[-800:], [d["rendered"][:300] for d in un[:3]]))
        for cid, ds in by.items():
            out[cid] = {"verdict": "rejected", "errors": [{"code": d["code"], "message": d["message"][:240]} for d in ds[:3]]}
        alive = [c for c in alive if c.id not in by]
    return out, {"rounds": rounds, "wall_s": time.time() - t0}
