"""Permutation corpus (C07), message corpus (C16), finite-float corpus (C12) — all live in the ctor workspace."""
import itertools
from fractions import Fraction
from .model import *
from .lib import *
from .corpus_ctor import Builder, int_bound, float_bound, float_denote, REGEXES
from .common import rust_str


def build_perm(tier, seed):
    b = Builder("p", tier, seed)
    rng = b.rng
    tags = ["C07", "C01", "C03"]
    # ---- strings: permutations of the full built-in set and of its subsets
    full = ["len_char_min", "len_char_max", "not_empty", "regex", "predicate"]

    def mk_string(order, contradictory=False, sans=()):
        d = b.new(inner_string(), tags=tags)
        for s in sans:
            d.sans.append(San(s))
        for k in order:
            if k == "len_char_min":
                if contradictory:
                    d.support.append("const LMIN: usize = 4;")
                    d.vals.append(Vld(k, "LMIN", 4))
                else:
                    d.vals.append(Vld(k, "2", 2))
            elif k == "len_char_max":
                if contradictory:
                    d.support.append("const LMAX: usize = 2;")
                    d.vals.append(Vld(k, "LMAX", 2))
                else:
                    d.vals.append(Vld(k, "3", 3))
            elif k == "not_empty":
                d.vals.append(Vld(k))
            elif k == "regex":
                if len(b.decls) % 3 == 0:
                    d.vals.append(Vld(k, '".*a"', ".*a"))
                    for pr in ("\nba", "x\ny\nza", "\n\n\na", "b\nA"):
                        d.tags.append("probe=" + pr)
                else:
                    d.vals.append(Vld(k, '"^[a-z ]+$"', "^[a-z ]+$"))
            elif k == "predicate":
                add_predicate(d, "x.contains('a')", SPELLINGS[len(b.decls) % 3])
        d.derives = ["Debug", "TryFrom", "FromStr"]
        return d

    perms = list(itertools.permutations(full))
    if tier == "quick":
        perms = perms[::3]
    for p in perms:
        mk_string(p)
    for size in (2, 3, 4):
        for sub in itertools.combinations(full, size):
            ps = list(itertools.permutations(sub))
            if tier == "quick":
                ps = ps[::max(1, len(ps) // 2)]
            for p in ps:
                mk_string(p, contradictory=("len_char_min" in p and "len_char_max" in p and len(b.decls) % 2 == 0),
                          sans=(("trim",) if len(b.decls) % 3 == 0 else ()))
    # ---- integers
    for ty in (["i8", "u8", "i32", "u64", "i128", "u128"] if tier == "quick" else list(INT_TYPES)):
        for lk, uk in itertools.product(["greater", "greater_or_equal"], ["less", "less_or_equal"]):
            for order in itertools.permutations(["lower", "upper", "predicate"]):
                for contradictory in (False, True):
                    if tier == "quick" and (len(b.decls) % 2 == 1):
                        b.n += 0
                    d = b.new(inner_int(ty), tags=tags)
                    lo, hi = (10, 5) if contradictory else (3, 20)
                    for k in order:
                        if k == "lower":
                            d.vals.append(int_bound(lk, ty, lo, "const" if contradictory else "lit", d, "LO"))
                        elif k == "upper":
                            d.vals.append(int_bound(uk, ty, hi, "const" if contradictory else "lit", d, "HI"))
                        else:
                            add_predicate(d, "*x % 2 == 0", SPELLINGS[len(b.decls) % 3])
                    d.derives = ["Debug"]
        # pairs without predicate, contradictory expression bounds in both orders
        for order in (("lower", "upper"), ("upper", "lower")):
            d = b.new(inner_int(ty), tags=tags)
            for k in order:
                if k == "lower":
                    d.vals.append(int_bound("greater_or_equal", ty, 50, "const", d, "LO"))
                else:
                    d.vals.append(int_bound("less_or_equal", ty, 40, "minmax", d, "HI"))
            d.derives = ["Debug"]
    # ---- floats
    for ty in FLOAT_TYPES:
        kinds = ["finite", "lower", "upper", "predicate"]
        perms = list(itertools.permutations(kinds))
        for pi, order in enumerate(perms):
            for ci, (lk, uk) in enumerate(itertools.product(["greater", "greater_or_equal"], ["less", "less_or_equal"])):
                if tier == "quick" and (pi + ci) % 4 != 0:
                    continue
                contradictory = (pi + ci) % 2 == 1
                d = b.new(inner_float(ty), tags=tags)
                for k in order:
                    if k == "finite":
                        d.vals.append(Vld("finite"))
                    elif k == "lower":
                        if contradictory:
                            d.support.append(f"const LO: {ty} = 10.0;")
                            d.vals.append(Vld(lk, "LO", float_denote(ty, Fraction(10))))
                        else:
                            d.vals.append(float_bound(lk, ty, "-1.5", None, Fraction(-3, 2), d))
                    elif k == "upper":
                        if contradictory:
                            d.support.append(f"const HI: {ty} = 5.0;")
                            d.vals.append(Vld(uk, "HI", float_denote(ty, Fraction(5))))
                        else:
                            d.vals.append(float_bound(uk, ty, "64.0", None, Fraction(64), d))
                    else:
                        add_predicate(d, "x.fract() == 0.0", SPELLINGS[(pi + ci) % 3])
                d.derives = ["Debug"]
        for sub in itertools.permutations(["finite", "lower", "upper"], 2):
            d = b.new(inner_float(ty), tags=tags)
            for k in sub:
                if k == "finite":
                    d.vals.append(Vld("finite"))
                elif k == "lower":
                    d.vals.append(float_bound("greater", ty, "0.0", None, Fraction(0), d))
                else:
                    d.vals.append(float_bound("less", ty, "1.0", None, Fraction(1), d))
            d.derives = ["Debug"]
        # bound spellings whose mis-reading changes *which* rule is blamed: exponent literals, user constants named like std's MIN / MAX next to `finite`,
        # expression bounds; nested and contradictory pairs in both orders, with `finite` at every position
        spell = [("1e2", Fraction(100), "1e3", Fraction(1000), ""), ("2.5e1", Fraction(25), "1e2", Fraction(100), ""), ("1E1", Fraction(10), "1.5E2", Fraction(150), ""),
                 ("MIN", Fraction(10), "MAX", Fraction(20), f"pub const MIN: {ty} = 10.0; pub const MAX: {ty} = 20.0;"),
                 ("-MAX", Fraction(-20), "MAX", Fraction(20), f"pub const MAX: {ty} = 20.0;"),
                 ("EPSILON", Fraction(3), "INFINITY", Fraction(30), f"pub const EPSILON: {ty} = 3.0; pub const INFINITY: {ty} = 30.0;"),
                 ("K + 1.0", Fraction(11), "K * 3.0", Fraction(30), f"const K: {ty} = 10.0;")]
        for si, (lt, lv, ut, uv, sup) in enumerate(spell):
            for ci, (lk, uk) in enumerate(itertools.product(["greater", "greater_or_equal"], ["less", "less_or_equal"])):
                if tier == "quick" and (si + ci) % 2 != 0:
                    continue
                for contradictory in (False, True):
                    for fpos in (None, 0, 1, 2):
                        if tier == "quick" and fpos in (1,) and contradictory:
                            continue
                        if contradictory and not sup:
                            continue   # contradictory *literal* bounds are refused at compile time (C08's R7)
                        d = b.new(inner_float(ty), tags=tags)
                        if sup:
                            d.support.append(sup)
                        lo = Vld(lk, lt if not contradictory else ut, float_denote(ty, lv if not contradictory else uv))
                        hi = Vld(uk, ut if not contradictory else lt, float_denote(ty, uv if not contradictory else lv))
                        d.vals = [lo, hi] if (si + ci) % 2 == 0 else [hi, lo]
                        if fpos is not None:
                            d.vals.insert(fpos, Vld("finite"))
                        d.derives = ["Debug"]
    # ---- custom with/error in every family: the user's error value must come back unchanged, computed on the sanitized value
    d = b.new(inner_int("i32"), tags=tags); add_with_sanitizer(d, "x.wrapping_add(1)", "closure"); add_custom_validation(d, "*x % 3 != 0"); d.derives = ["Debug"]
    d = b.new(inner_float("f64"), tags=tags); add_with_sanitizer(d, "x.abs()", "typed"); add_custom_validation(d, "*x < 10.0"); d.derives = ["Debug"]
    d = b.new(inner_string(), tags=tags); d.sans += [San("trim"), San("lowercase")]; add_custom_validation(d, "x.len() % 2 == 0"); d.derives = ["Debug"]
    d = b.new(OTHER_INNERS["vec"], tags=tags); add_with_sanitizer(d, "{ let mut x = x; x.sort(); x }", "mut"); add_custom_validation(d, "x.first() != Some(&0)"); d.derives = ["Debug"]
    d = b.new(OTHER_INNERS["point"], tags=tags); add_custom_validation(d, "x.x <= x.y"); d.derives = ["Debug"]
    for d in b.decls:
        if "TryFrom" not in d.derives:
            d.derives.append("TryFrom")
    return b.decls


def build_message(tier, seed):
    b = Builder("m", tier, seed)
    tags = ["C16"]
    kinds = ["greater", "greater_or_equal", "less", "less_or_equal"]
    int_cases = {"i8": [-100, -1, 0, 5, 100], "u8": [0, 1, 200], "i32": [-1000000, -1, 0, 7, 1000000], "u64": [1, 10 ** 12],
                 "i128": [-(10 ** 30), 10 ** 30], "i64": [-5, 5], "usize": [3], "u16": [1000], "i16": [-300], "u32": [70000], "u128": [10**20], "isize": [-9]}
    for ty, vals in int_cases.items():
        for ki, k in enumerate(kinds):
            for vi, v in enumerate(vals):
                if tier == "quick" and (ki + vi) % 2 != 0 and len(vals) > 2:
                    continue
                lo_t, hi_t = int_range(ty)
                if (k == "greater_or_equal" and v == lo_t) or (k == "less_or_equal" and v == hi_t):
                    continue   # nothing can violate the rule: no message is obtainable
                d = b.new(inner_int(ty), tags=tags)
                d.vals.append(int_bound(k, ty, v, "lit" if (ki + vi) % 3 else "const", d))
                d.derives = ["Debug", "FromStr"]
    float_cases = [("-12.34", Fraction(-1234, 100)), ("-1.0", Fraction(-1)), ("0.0", Fraction(0)), ("0.5", Fraction(1, 2)), ("64.0", Fraction(64)),
                   ("1e10", Fraction(10) ** 10), ("12.34", Fraction(1234, 100)), ("100", Fraction(100)), ("-0.0", "NEGZERO"), ("1e-7", Fraction(1, 10 ** 7)),
                   ("-2.5e-3", Fraction(-25, 10000)), ("16777216.0", Fraction(16777216)), ("1e30", Fraction(10) ** 30)]
    for ty in FLOAT_TYPES:
        for ki, k in enumerate(kinds):
            for vi, (txt, ex) in enumerate(float_cases):
                if tier == "quick" and (ki + vi) % 2 != 0:
                    continue
                d = b.new(inner_float(ty), tags=tags)
                if (ki + vi) % 3 == 0:
                    d.support.append(f"const B: {ty} = {txt if '.' in txt or 'e' in txt else txt + '.0'};")
                    d.vals.append(Vld(k, "B", float_denote(ty, ex)))
                else:
                    d.vals.append(float_bound(k, ty, txt, None, ex, d))
                d.derives = ["Debug", "FromStr"]
    for k in ("len_char_min", "len_char_max"):
        for n in (0, 1, 2, 3, 10, 255):
            for sp in ("lit", "const"):
                if tier == "quick" and sp == "const" and n not in (3, 10):
                    continue
                if k == "len_char_min" and n == 0:
                    continue   # nothing can violate it: no message obtainable
                d = b.new(inner_string(), tags=tags)
                if sp == "lit":
                    d.vals.append(Vld(k, str(n), n))
                else:
                    d.support.append(f"const N: usize = {n};")
                    d.vals.append(Vld(k, "N", n))
                d.derives = ["Debug", "FromStr"]
    # type names that collide with the suffixes the macro derives error-type names from
    for nm in ("RelativeError", "DriftError", "ParseError", "ErrorError", "MyErrorKind", "Errors"):
        for (inner, vld) in ((inner_int("i32"), int_bound("greater", "i32", 5, "lit", None)), (inner_float("f64"), None), (inner_string(), Vld("len_char_max", "3", 3))):
            d = b.new(inner, tags=tags, type_name=nm + ("I" if inner.fam == "int" else "F" if inner.fam == "float" else "S") if False else nm)
            d.type_name = nm
            if vld is None:
                vld = float_bound("less", "f64", "2.5", None, Fraction(5, 2), d)
            d.vals.append(vld)
            d.derives = ["Debug", "FromStr"]
    # constant / expression float bounds whose rendering needs many digits or an exponent
    for ty in FLOAT_TYPES:
        exprs = [("TINY", "const TINY: %s = 1e-15;" % ty, Fraction(1, 10 ** 15)), ("NEG_TINY", "const NEG_TINY: %s = -2.5e-13;" % ty, Fraction(-25, 10 ** 14)),
                 ("1.0 / 3.0", "", None), ("HUGE", "const HUGE: %s = %s;" % (ty, "1e30" if ty == "f32" else "1e300"), Fraction(10) ** (30 if ty == "f32" else 300)),
                 ("K * 0.1", "const K: %s = 0.284;" % ty, None), ("%s::EPSILON" % ty, "", None)]
        for (txt, sup, ex) in exprs:
            for k in ("greater", "less", "greater_or_equal"):
                d = b.new(inner_float(ty), tags=tags)
                if sup:
                    d.support.append(sup)
                if ex is None:
                    # evaluate the expression exactly as Rust does, in the declaration's float type
                    import struct
                    def f32r(x):
                        return struct.unpack("<f", struct.pack("<f", x))[0]
                    if txt == "1.0 / 3.0":
                        val = (f32r(1.0) / f32r(3.0)) if ty == "f32" else 1.0 / 3.0
                        val = f32r(val) if ty == "f32" else val
                    elif txt.startswith("K"):
                        val = f32r(f32r(0.284) * f32r(0.1)) if ty == "f32" else 0.284 * 0.1
                    else:
                        val = 2.0 ** -23 if ty == "f32" else 2.0 ** -52
                    den = ("f32", struct.unpack("<I", struct.pack("<f", val))[0]) if ty == "f32" else ("f64", struct.unpack("<Q", struct.pack("<d", val))[0])
                else:
                    den = float_denote(ty, ex)
                d.vals.append(Vld(k, txt, den))
                d.derives = ["Debug", "FromStr"]
    # several validators in one declaration: every variant's text must stay truthful next to the others
    # (bounds far apart, so the neighbourhood of one bound satisfies the other)
    for ty in (["i32", "u8", "i64"] if tier == "quick" else list(INT_TYPES)):
        lo_v, hi_v = (20, 200) if ty == "u8" else (-500 if ty[0] == "i" else 20, 5000)
        for lk, uk in itertools.product(["greater", "greater_or_equal"], ["less", "less_or_equal"]):
            for order in (0, 1):
                d = b.new(inner_int(ty), tags=tags)
                vals = [int_bound(lk, ty, lo_v, "lit", d), int_bound(uk, ty, hi_v, "const" if order else "lit", d, "HI")]
                if order:
                    vals.reverse()
                d.vals = vals
                if (order + len(b.decls)) % 3 == 0:
                    add_predicate(d, "*x != 77", "closure")
                d.derives = ["Debug", "FromStr"]
    for ty in FLOAT_TYPES:
        for lk, uk in itertools.product(["greater", "greater_or_equal"], ["less", "less_or_equal"]):
            for order in (0, 1):
                d = b.new(inner_float(ty), tags=tags)
                vals = [float_bound(lk, ty, "-500.0", None, Fraction(-500), d), float_bound(uk, ty, "5000.0", None, Fraction(5000), d)]
                if order:
                    vals.reverse()
                if (order + len(b.decls)) % 2 == 0:
                    vals.insert(1, Vld("finite"))
                d.vals = vals
                d.derives = ["Debug", "FromStr"]
    for mn, mx in ((2, 40), (3, 300)):
        for order in (0, 1):
            for extra in ((), ("not_empty",)):
                d = b.new(inner_string(), tags=tags)
                vals = [Vld("len_char_min", str(mn), mn), Vld("len_char_max", str(mx), mx)]
                if order:
                    vals.reverse()
                    d.support.append("const MN: usize = %d;" % mn)
                    vals[1] = Vld("len_char_min", "MN", mn)
                for e in extra:
                    vals.insert(1, Vld(e))
                d.vals = vals
                d.derives = ["Debug", "FromStr"]
    return b.decls


def build_finite(tier, seed):
    b = Builder("f", tier, seed)
    tags = ["C12", "C01", "C03", "C06", "C13"]
    der = ["Debug", "Clone", "Copy", "PartialEq", "Eq", "PartialOrd", "Ord", "TryFrom", "FromStr", "Display", "AsRef", "Borrow", "Deref", "Into"]
    n32 = 0
    for ty in FLOAT_TYPES:
        combos = [
            [("finite", None)],
            [("finite", None), ("greater_or_equal", ("0.0", Fraction(0)))],
            [("less", ("1e30", Fraction(10) ** 30)), ("finite", None)],
            [("greater", ("-1.5", Fraction(-3, 2))), ("finite", None), ("less_or_equal", ("64.0", Fraction(64)))],
            [("finite", None), ("greater_or_equal", (f"{ty}::MIN", "MIN")), ("less_or_equal", (f"{ty}::MAX", "MAX"))],
            [("greater_or_equal", (f"{ty}::NEG_INFINITY", -__import__("math").inf)), ("finite", None)],
            [("finite", None), ("less_or_equal", (f"{ty}::INFINITY", __import__("math").inf))],
            [("finite", None), ("predicate", "*x != 0.5")],
            # zero bounds, both signs, literal and constant: -0.0 and 0.0 are the same number for every comparison the type exposes
            [("finite", None), ("greater_or_equal", ("0.0", Fraction(0)))],
            [("greater_or_equal", ("-0.0", "NEGZERO")), ("finite", None)],
            [("finite", None), ("less_or_equal", ("0.0", Fraction(0))), ("greater_or_equal", ("-64.0", Fraction(-64)))],
            [("finite", None), ("greater_or_equal", ("0.0", Fraction(0))), ("less_or_equal", ("64.0", Fraction(64)))],
        ]
        for ci, c in enumerate(combos):
            for with_san in (False, True):
                if with_san and ci % 3 != 0:
                    continue
                d = b.new(inner_float(ty), tags=list(tags))
                if with_san:
                    add_with_sanitizer(d, "x + 0.0", "closure")
                for (k, arg) in c:
                    if k == "finite":
                        d.vals.append(Vld("finite"))
                    elif k == "predicate":
                        add_predicate(d, arg, "closure")
                    else:
                        d.vals.append(float_bound(k, ty, arg[0], None, arg[1], d))
                d.derives = list(der)
                if ci % 2 == 0:
                    d.default = ("0.25", float_denote(ty, Fraction(1, 4)))
                    d.derives.append("Default")
                if ty == "f32" and n32 < 8 and not with_san:
                    d.tags.append("sweep32")
                    n32 += 1
        # const_fn variants (the const path must keep the NaN / infinity check)
        for ci, c in enumerate(combos[:5]):
            if any(k == "predicate" for k, _ in c):
                continue
            d = b.new(inner_float(ty), tags=list(tags))
            for (k, arg) in c:
                if k == "finite":
                    d.vals.append(Vld("finite"))
                else:
                    d.vals.append(float_bound(k, ty, arg[0], None, arg[1], d))
            d.const_fn = True
            d.derives = list(der)
        # sanitizers that can turn a finite input into inf / NaN: `finite` must be checked on the sanitized value (const and non-const paths)
        bigmul = "x * 1e30" if ty == "f32" else "x * 1e300"
        for (body, const_ok) in ((bigmul, True), ("x / (x - x)", True), ("(x - x) / (x - x)", True), ("if x == 0.0 { x / x } else { x }", True), ("x * x * x * x", True), ("1.0 / x", True)):
            for cf in (False, True):
                for extra in (None, ("less_or_equal", ("64.0", Fraction(64)))):
                    d = b.new(inner_float(ty), tags=list(tags))
                    add_with_sanitizer(d, body, "path", const=cf)
                    d.vals.append(Vld("finite"))
                    if extra:
                        d.vals.insert(0, float_bound(extra[0], ty, extra[1][0], None, extra[1][1], d))
                    d.const_fn = cf
                    d.derives = list(der)
        # invalid (non-finite) defaults: Default::default() must panic rather than hand out NaN / inf
        import math
        for (txt, den) in ((f"{ty}::NAN", float_denote(ty, math.nan) if False else None), (f"{ty}::INFINITY", float_denote(ty, math.inf)), (f"-{ty}::INFINITY", float_denote(ty, -math.inf))):
            d = b.new(inner_float(ty), tags=list(tags))
            d.vals.append(Vld("finite"))
            d.derives = list(der) + ["Default"]
            if den is None:
                den = ("f32", 0x7FC00000) if ty == "f32" else ("f64", 0x7FF8000000000000)
            d.default = (txt, den)
        # traps: Eq/Ord without `finite` must be refused (C08). Should the macro ever accept them, the C12 monitors apply:
        # NaN becomes obtainable and the order axioms break. Normally these are rejected and silently dropped.
        for trap in ("bounds", "predicate", "custom"):
            d = b.new(inner_float(ty), tags=list(tags))
            if trap == "bounds":
                d.vals.append(float_bound("greater_or_equal", ty, "-1.5", None, Fraction(-3, 2), d))
            elif trap == "predicate":
                add_predicate(d, "*x != 0.5", "closure")
            else:
                add_custom_validation(d, "*x != 0.5")
            d.derives = list(der)
            d.unspecified = True
            # the same trap with Eq alone (Ord has its own gate in the macro)
            d2 = b.new(inner_float(ty), tags=list(tags))
            d2.support = list(d.support)
            d2.vals = list(d.vals)
            d2.custom = d.custom
            d2.derives = [t for t in der if t != "Ord"]
            d2.unspecified = True
            if d.custom:
                d2.support = [x.replace(d.type_name + "CustomErr", d2.type_name + "CustomErr") for x in d.support]
                d2.custom = (d.custom[0], d2.type_name + "CustomErr", d.custom[2])
    return b.decls


def build_defaults(tier, seed):
    """Default expressions that sit on the other side of a bound before / after sanitising (C03): default() must agree
    with the constructor applied to the written expression, i.e. sanitize first."""
    b = Builder("q", tier, seed)
    tags = ["C03", "C01", "C06"]
    cases = [
        # (inner, sanitizer body, validator builder, default text, denoted raw default)
        ("i32", "x.wrapping_add(7)", ("less_or_equal", 100), "95", 95),      # valid as written, invalid after sanitising -> must panic
        ("i32", "x.wrapping_add(7)", ("less_or_equal", 100), "100", 100),
        ("i32", "x.wrapping_add(7)", ("less_or_equal", 100), "93", 93),      # valid before and after (93 + 7 = 100)
        ("i32", "x / 2", ("less_or_equal", 50), "80", 80),                   # invalid as written, valid after sanitising -> must return
        ("u8", "x.wrapping_add(1)", ("less", 10), "9", 9),
        ("u8", "x.wrapping_add(1)", ("greater", 0), "255", 255),             # wraps to 0 -> must panic
        ("i64", "if x > 100 { 100 } else { x }", ("less_or_equal", 100), "150", 150),
        ("i16", "x.wrapping_abs()", ("greater_or_equal", 0), "-5", -5),
    ]
    for i, (ty, body, (k, v), dtxt, dden) in enumerate(cases):
        for sp in ("closure", "path"):
            for dsp in ("lit", "const"):
                d = b.new(inner_int(ty), tags=list(tags))
                add_with_sanitizer(d, body, sp)
                d.vals.append(int_bound(k, ty, v, "lit", d))
                if dsp == "lit" and i % 2 == 1 and sp == "path":
                    # default given as a function call
                    d.support.append("fn make_default() -> %s { %s }" % (ty, dtxt))
                    d.default = ("make_default()", dden)
                elif dsp == "lit":
                    d.default = (dtxt, dden)
                else:
                    d.support.append("const DFLT: %s = %s;" % (ty, dtxt))
                    d.default = ("DFLT", dden)
                d.derives = ["Debug", "Default", "TryFrom", "FromStr"]
    fcases = [("f64", "x * 2.0", ("less", "10.0", Fraction(10)), "6.0", Fraction(6)), ("f64", "x * 2.0", ("less", "10.0", Fraction(10)), "4.0", Fraction(4)),
              ("f32", "x.abs()", ("greater_or_equal", "0.0", Fraction(0)), "-1.5", Fraction(-3, 2)), ("f64", "x - 1.0", ("greater", "0.0", Fraction(0)), "1.0", Fraction(1)),
              ("f64", "if x.is_nan() { 0.0 } else { x }", ("greater_or_equal", "0.0", Fraction(0)), "f64::NAN", None)]
    for (ty, body, (k, t, ex), dtxt, dex) in fcases:
        d = b.new(inner_float(ty), tags=list(tags))
        add_with_sanitizer(d, body, "closure")
        d.vals.append(float_bound(k, ty, t, None, ex, d))
        d.vals.append(Vld("finite"))
        den = float_denote(ty, dex) if dex is not None else ("f64", 0x7FF8000000000000)
        d.default = (dtxt, den)
        d.derives = ["Debug", "Default", "TryFrom"]
    for (dtxt, dden, sup) in (("-5 + OFFSET", 5, "const OFFSET: i32 = 10;"), ("-A - B", -7, "const A: i32 = 3; const B: i32 = 4;"), ("-7 >> 1", -4, ""), ("-OFFSET * 2 + 1", -19, "const OFFSET: i32 = 10;"),
                             ("- 5 + 6", 1, ""), ("-(5 + OFFSET)", -15, "const OFFSET: i32 = 10;")):
        for hv in (True, False):
            d = b.new(inner_int("i32"), tags=list(tags))
            if sup:
                d.support.append(sup)
            if hv:
                d.vals.append(int_bound("greater", "i32", -100, "lit", d))
            d.default = (dtxt, dden)
            d.derives = ["Debug", "Default", "TryFrom", "FromStr"]
    for (dtxt, ex, sup) in (("-0.5 + OFFSET", Fraction(1, 2), "const OFFSET: f64 = 1.0;"), ("-A * 2.0 - 1.0", Fraction(-4), "const A: f64 = 1.5;")):
        d = b.new(inner_float("f64"), tags=list(tags))
        d.support.append(sup)
        d.vals.append(Vld("finite"))
        d.default = (dtxt, float_denote("f64", ex))
        d.derives = ["Debug", "Default", "TryFrom"]
    # f32 defaults written as compound expressions of untyped literals: evaluated in f32, exactly as the constructor would receive them
    for (dtxt, val, bnd) in (("0.1 + 0.6", None, "0.7"), ("16777216.0 + 1.0 + 1.0", None, "16777217.0"), ("0.1 * 3.0", None, "0.3"), ("1.0 / 3.0 + 1.0 / 3.0", None, "0.6666667")):
        import struct
        def f32(x):
            return struct.unpack("<f", struct.pack("<f", x))[0]
        # evaluate in f32 arithmetic, left to right, as rustc does for an f32-typed expression
        toks = dtxt.replace("(", " ").replace(")", " ").split()
        def ev(tokens):
            # precedence: * and / before + and -
            vals, ops = [f32(float(tokens[0]))], []
            for i_ in range(1, len(tokens), 2):
                ops.append(tokens[i_]); vals.append(f32(float(tokens[i_ + 1])))
            j_ = 0
            while j_ < len(ops):
                if ops[j_] in "*/":
                    r_ = f32(vals[j_] * vals[j_ + 1]) if ops[j_] == "*" else f32(vals[j_] / vals[j_ + 1])
                    vals[j_:j_ + 2] = [r_]; ops.pop(j_)
                else:
                    j_ += 1
            acc = vals[0]
            for o_, v_ in zip(ops, vals[1:]):
                acc = f32(acc + v_) if o_ == "+" else f32(acc - v_)
            return acc
        den = ("f32", struct.unpack("<I", struct.pack("<f", ev(toks)))[0])
        for hv in (True, False):
            d = b.new(inner_float("f32"), tags=list(tags))
            if hv:
                d.vals.append(Vld("less_or_equal", bnd, float_denote("f32", Fraction(bnd))))
            d.default = (dtxt, den)
            d.derives = ["Debug", "Default", "TryFrom", "FromStr"]
    for ty, bound in (("i32", 2), ("u8", 3)):
        d = b.new(inner_int(ty), tags=list(tags) + ["default_seq=0,1,2,3,4"])
        d.support.append("static TICKET: ::core::sync::atomic::AtomicU32 = ::core::sync::atomic::AtomicU32::new(0);\n"
                         "fn next_ticket() -> %s { TICKET.fetch_add(1, ::core::sync::atomic::Ordering::SeqCst) as %s }" % (ty, ty))
        d.vals.append(int_bound("less", ty, bound, "lit", d))
        d.default = ("next_ticket()", 0)
        d.derives = ["Debug", "Default"]
    # bounds read from a run-time cell: the rule in force at each call is the one the expression denotes at that call
    cell = "static LIMIT_CELL: ::core::sync::atomic::AtomicI64 = ::core::sync::atomic::AtomicI64::new(10);\nfn limit() -> %s { LIMIT_CELL.load(::core::sync::atomic::Ordering::SeqCst) as %s }"
    pk = "poke=10,20,5,-3,10" 
    for (inner, ty, kinds) in ((inner_int("i32"), "i32", ("less_or_equal", "greater", "less", "greater_or_equal")), (inner_int("u8"), "u8", ("less", "greater_or_equal")),
                               (inner_int("i64"), "i64", ("greater",)), (inner_float("f64"), "f64", ("less_or_equal", "greater")), (inner_float("f32"), "f32", ("less",))):
        for k in kinds:
            for (btxt, note) in (("limit()", ""), ("{ limit() }", ""), ("limit() + 0 as %s" % ty, "")):
                d = b.new(inner, tags=["C01", "C02", pk if ty != "u8" else "poke=10,20,5,0,10"])
                d.support.append(cell % (ty, ty))
                if inner.fam == "float":
                    d.vals.append(Vld(k, btxt, float_denote(ty, Fraction(10))))
                else:
                    d.vals.append(Vld(k, btxt, 10))
                d.derives = ["Debug", "TryFrom"]
    for k in ("len_char_max", "len_char_min"):
        for btxt in ("limit()", "{ limit() }"):
            d = b.new(inner_string(), tags=["C01", "C02", "poke=10,20,5,0,10"])
            d.support.append(cell % ("usize", "usize"))
            d.vals.append(Vld(k, btxt, 10))
            d.derives = ["Debug", "TryFrom"]
    # literal string defaults whose whitespace / case the *later* built-in sanitizers remove: the custom sanitizer, written first, must still see them
    for (body, after, dflt, vs) in (("format!(\"{x}{x}\")", ["trim"], " a ", []), ("x.replace(' ', \"_\")", ["trim", "lowercase"], " Hello World ", []),
                                    ("x.replace('A', \"b\")", ["lowercase"], "AbA", [("len_char_max", 5)]), ("format!(\"{x}?\")", ["trim", "uppercase"], "maybe ", [("not_empty", None)]),
                                    ("x.trim_end().to_string()", ["uppercase", "trim"], "  xA ", [])):
        for dsp in ("lit", "to_string"):
            d = b.new(inner_string(), tags=list(tags))
            add_with_sanitizer(d, body, "closure")
            for a_ in after:
                d.sans.append(San(a_))
            for (k, v) in vs:
                d.vals.append(Vld(k, None if v is None else str(v), v))
            d.default = (rust_str(dflt) + (".to_string()" if dsp == "to_string" else ""), dflt)
            d.derives = ["Debug", "Default", "TryFrom" if vs else "From", "FromStr"]
    scases = [("format!(\"{x}{x}\")", [("len_char_max", 5)], "abc"), ("format!(\"{x}{x}\")", [("len_char_max", 6)], "abc"),
              ("x.replace('x', \" \")", [("not_empty", None)], "xx"), ("x.chars().take(3).collect()", [("len_char_max", 3)], "abcdef")]
    for (body, vs, dflt) in scases:
        for with_trim in (False, True):
            d = b.new(inner_string(), tags=list(tags))
            add_with_sanitizer(d, body, "closure")
            if with_trim:
                d.sans.append(San("trim"))
            for (k, v) in vs:
                d.vals.append(Vld(k, None if v is None else str(v), v))
            d.default = (rust_str(dflt), dflt)
            d.derives = ["Debug", "Default", "TryFrom", "FromStr"]
    return b.decls


def build_unchecked(tier, seed):
    """Declarations carrying the `new_unchecked` flag: the flag must not change any guarded entry point (C01, C03), and values stored
    through `unsafe { new_unchecked }` are exposed / compared transparently like any other (C13)."""
    b = Builder("u", tier, seed)
    tags = ["C01", "C03", "C13", "C11", "unchecked"]
    for ty in ("i32", "u8", "i64"):
        for hv in (True, False):
            d = b.new(inner_int(ty), tags=list(tags))
            if hv:
                d.vals.append(int_bound("greater", ty, 0, "lit", d))
                d.vals.append(int_bound("less_or_equal", ty, 100, "lit", d))
            else:
                add_with_sanitizer(d, "x.min(100)", "closure")
            d.new_unchecked = True
            d.derives = ["Debug", "Clone", "Copy", "PartialEq", "Eq", "PartialOrd", "Ord", "Hash", "AsRef", "Deref", "Borrow", "Into", "Display", "FromStr", "TryFrom" if hv else "From"]
    for ty in ("f32", "f64"):
        for variant in range(3):
            d = b.new(inner_float(ty), tags=list(tags))
            d.new_unchecked = True
            if variant == 0:
                d.vals.append(Vld("finite"))
                d.derives = ["Debug", "Clone", "Copy", "PartialEq", "Eq", "PartialOrd", "Ord", "AsRef", "Deref", "Borrow", "Into", "Display", "FromStr", "TryFrom"]
            elif variant == 1:
                d.vals.append(Vld("finite"))
                d.vals.append(float_bound("greater_or_equal", ty, "-1.5", None, Fraction(-3, 2), d))
                d.const_fn = True
                d.derives = ["Debug", "Clone", "Copy", "PartialEq", "Eq", "PartialOrd", "Ord", "AsRef", "Deref", "Borrow", "Into", "Display", "TryFrom"]
            else:
                d.vals.append(float_bound("less", ty, "64.0", None, Fraction(64), d))
                d.derives = ["Debug", "Clone", "Copy", "PartialEq", "PartialOrd", "AsRef", "Deref", "Borrow", "Into", "Display", "FromStr", "TryFrom"]
    for variant in range(3):
        d = b.new(inner_string(), tags=list(tags))
        d.new_unchecked = True
        d.sans.append(San("trim"))
        if variant != 2:
            d.sans.append(San("lowercase"))
        if variant != 1:
            d.vals.append(Vld("not_empty"))
            d.vals.append(Vld("len_char_max", "6", 6))
        d.derives = ["Debug", "Clone", "PartialEq", "Eq", "PartialOrd", "Ord", "Hash", "AsRef", "Deref", "Borrow", "Into", "Display", "FromStr", "TryFrom" if variant != 1 else "From"]
    d = b.new(OTHER_INNERS["vec"], tags=["C01", "C03", "C13", "unchecked"])
    d.new_unchecked = True
    add_predicate(d, "!x.is_empty()", "closure")
    d.derives = ["Debug", "Clone", "PartialEq", "Eq", "PartialOrd", "Ord", "Hash", "AsRef", "Deref", "Borrow", "Into", "TryFrom", "IntoIterator"]
    return b.decls


def build_homonyms(tier, seed):
    """Several declarations that share one type name (each in its own module) but differ in their rules, in every family: any state the
    generated code keeps per *name* (a cache, a registry, a static shared through the parent scope) would leak rules from one into the other.
    Declared in an order that interleaves the families; the monitors visit them one after another in one process."""
    b = Builder("h", tier, seed)
    tags = ["C01", "C03", "C06", "C07", "C11"]   # not C16: its probes assume that no sanitizer moves the probe value (FA-13, FA-18)
    for rnd in range(3):
        for name in ("Code", "Value", "Id"):
            d = b.new(inner_string(), tags=list(tags), type_name=name)
            d.sans.append(San(["trim", "lowercase", "uppercase"][rnd]))
            if rnd == 1:
                d.sans.append(San("trim"))
            pat = ["^[a-z]{2,4}$", "^[0-9]+$", "^[A-Z][A-Z0-9]*$"][rnd]
            d.vals.append(Vld("regex", rust_str(pat), pat))
            d.vals.append(Vld("len_char_max", str(4 + 3 * rnd), 4 + 3 * rnd))
            for pr in (["ab", "abcd", "abcde", " AB ", "a1"], ["12", "1234567", "12345678", " 42 ", "4a"], ["A1", "AB12CD", "ABCDEFGHIJ", "ABCDEFGHIJK", " zz9 ", "1A"])[rnd]:
                d.tags.append("probe=" + pr)
            d.derives = ["Debug", "Clone", "PartialEq", "TryFrom", "FromStr", "Display", "AsRef"]
            d = b.new(inner_int("i32"), tags=list(tags), type_name=name)
            d.vals.append(int_bound(["greater", "greater_or_equal", "less"][rnd], "i32", [10, -5, 0][rnd], "lit", d))
            if rnd == 1:
                add_with_sanitizer(d, "x.wrapping_abs()", "closure")
            d.derives = ["Debug", "Clone", "Copy", "PartialEq", "TryFrom", "FromStr", "Display", "AsRef"]
            d = b.new(inner_float("f64"), tags=list(tags), type_name=name)
            d.vals.append(float_bound(["less", "greater", "less_or_equal"][rnd], "f64", ["2.5", "-1.5", "64.0"][rnd], None, [Fraction(5, 2), Fraction(-3, 2), Fraction(64)][rnd], d))
            if rnd == 2:
                d.vals.insert(0, Vld("finite"))
            d.derives = ["Debug", "Clone", "Copy", "PartialEq", "TryFrom", "FromStr", "Display", "AsRef"]
    # the same name for integer newtypes with *different small ranges* deriving Arbitrary (a macro-side memo keyed by the type name would hand the
    # second declaration the first one's range)
    for (l_, h_, spell) in ((1, 10, "lit"), (1, 100, "lit"), (-5, 5, "const"), (0, 3, "lit")):
        d = b.new(inner_int("i16"), tags=["C01", "C09", "C14"], type_name="Level")
        d.vals.append(int_bound("greater_or_equal", "i16", l_, spell, d, "LO"))
        d.vals.append(int_bound("less_or_equal", "i16", h_, spell, d, "HI"))
        d.derives = ["Debug", "Clone", "PartialEq", "TryFrom", "Arbitrary"]
    for (mn, mx) in ((1, 3), (2, 12), (0, 5)):
        d = b.new(inner_string(), tags=["C01", "C09"], type_name="Level")
        d.vals.append(Vld("len_char_min", str(mn), mn))
        d.vals.append(Vld("len_char_max", str(mx), mx))
        d.derives = ["Debug", "Clone", "PartialEq", "TryFrom", "Arbitrary"]
    for (l_, h_) in (("0.0", "1.0"), ("-5.0", "5.0"), ("10.0", "20.0")):
        d = b.new(inner_float("f64"), tags=["C01", "C09"], type_name="Level")
        d.vals.append(float_bound("greater_or_equal", "f64", l_, None, Fraction(l_), d))
        d.vals.append(float_bound("less_or_equal", "f64", h_, None, Fraction(h_), d))
        d.derives = ["Debug", "Clone", "PartialEq", "TryFrom", "Arbitrary"]
    return b.decls
