"""Serde corpus: serves C04, C10 (+ C12 obtainability through Deserialize, C16 embedding)."""
import itertools
from fractions import Fraction
from .model import *
from .lib import *
from .corpus_ctor import Builder, int_bound, float_bound, float_denote, REGEXES
from .common import rust_str

SER = ["Serialize", "Deserialize"]


def der_for(d, extra=()):
    caps = d.inner.caps
    der = ["Debug", "Clone", "PartialEq"]
    if "Ord" in caps:
        der += ["Eq", "PartialOrd", "Ord"]
    elif d.inner.fam == "float":
        der += ["PartialOrd"]
        if any(v.kind == "finite" for v in d.vals) and not d.custom:
            der += ["Eq", "Ord"]
            d.tags.append("C12")
    d.derives = der + SER + list(extra)
    return d


def build(tier, seed):
    b = Builder("s", tier, seed)
    tags = ["C04", "C10"]
    idx = 0
    # ---- integers: all 12 types
    for ti, ty in enumerate(INT_TYPES):
        lo, hi = int_range(ty)
        variants = [
            [],
            [("greater_or_equal", 3), ("less", 100)],
            [("less_or_equal", hi - 1)],
            [("greater", lo + 1 if lo < 0 else 1)],
            ["pred"],
            ["san"],
            ["san", ("less_or_equal", 50)],
            ["custom"],
            ["sanbad", ("greater_or_equal", 1)],
        ]
        for vi, var in enumerate(variants):
            if tier == "quick" and vi >= 4 and (vi + ti) % 2 != 0:
                continue
            idx += 1
            d = b.new(inner_int(ty), tags=list(tags))
            for item in var:
                if item == "pred":
                    add_predicate(d, "*x % 2 == 0", SPELLINGS[idx % 3])
                elif item == "san":
                    add_with_sanitizer(d, f"if x > 100 {{ 100 }} else {{ x }}", SPELLINGS[idx % 4])
                elif item == "sanbad":
                    add_with_sanitizer(d, "x.wrapping_add(1)", SPELLINGS[idx % 4])
                    d.tags.remove("C10")   # not idempotent: round trip is not promised
                elif item == "custom":
                    add_custom_validation(d, "*x != 13")
                else:
                    d.vals.append(int_bound(item[0], ty, item[1], ["lit", "const"][idx % 2], d))
            if len(d.vals) == 1 and d.vals[0].kind != "predicate" and not d.sans:
                d.tags.append("C16")
            der_for(d)
    for ty, dflt in (("i32", 3), ("u8", 50), ("i64", -1)):
        for hv in (True, False):
            idx += 1
            d = b.new(inner_int(ty), tags=list(tags))
            if hv:
                d.vals.append(int_bound("greater_or_equal", ty, 1 if dflt > 0 else -5, "lit", d))
            d.default = (str(dflt), dflt)
            der_for(d, ["Default"])
    for dflt in ("anonymous", " x "):
        idx += 1
        d = b.new(inner_string(), tags=list(tags))
        d.sans.append(San("trim"))
        d.vals.append(Vld("len_char_max", "20", 20))
        d.default = (rust_str(dflt), dflt)
        der_for(d, ["Default", "Hash"])
    # ---- floats
    for ti, ty in enumerate(FLOAT_TYPES):
        idx += 1
        d = b.new(inner_float(ty), tags=list(tags))
        d.vals.append(Vld("finite"))
        d.default = ("2.5", float_denote(ty, Fraction(5, 2)))
        der_for(d, ["Default"])
        variants = [
            [],
            ["finite"],
            [("greater_or_equal", "0.0", Fraction(0)), ("less_or_equal", "1.0", Fraction(1))],
            ["finite", ("greater", "-1.5", Fraction(-3, 2)), ("less", "64.0", Fraction(64))],
            [("less", "0.5", Fraction(1, 2))],
            [("less_or_equal", "12.34", Fraction(1234, 100))],
            [("greater", "0.0", Fraction(0))],
            [("greater_or_equal", "-1e10", Fraction(-10) ** 10 * -1 * -1)],
            ["san", "finite"],
            ["san"],
            ["pred", "finite"],
            ["custom"],
            [("greater_or_equal", f"{ty}::MIN", "MIN"), "finite", ("less_or_equal", f"{ty}::MAX", "MAX")],
            [("less_or_equal", f"{ty}::INFINITY", __import__("math").inf), "finite"],
        ]
        for vi, var in enumerate(variants):
            idx += 1
            d = b.new(inner_float(ty), tags=list(tags))
            for item in var:
                if item == "finite":
                    d.vals.append(Vld("finite"))
                elif item == "pred":
                    add_predicate(d, "x.fract() == 0.0 || x.is_nan()", SPELLINGS[idx % 3])
                elif item == "san":
                    add_with_sanitizer(d, "x.clamp(-100.0, 100.0)", SPELLINGS[idx % 4])
                elif item == "custom":
                    add_custom_validation(d, "*x != 13.0")
                else:
                    ex = item[2]
                    if item[1] == "-1e10":
                        ex = -(Fraction(10) ** 10)
                    d.vals.append(float_bound(item[0], ty, item[1], None, ex, d))
            if len(d.vals) == 1 and d.vals[0].kind in ("greater", "greater_or_equal", "less", "less_or_equal"):
                d.tags.append("C16")
            der_for(d)
    # ---- strings
    sls = [[], ["trim"], ["lowercase"], ["trim", "lowercase"], ["uppercase", "trim"], ["with"], ["trim", "with", "uppercase"]]
    vss = [[], [("not_empty", None)], [("len_char_min", 2), ("len_char_max", 4)], [("len_char_max", 3)], [("regex", 0)], [("predicate", 0)], [("custom", None)],
           [("len_char_min", 3)]]
    from .corpus_ctor import apply_string_validators, string_sanitizer_bodies
    for si, sl in enumerate(sls):
        for vi, vs in enumerate(vss):
            if tier == "quick" and (si + vi) % 2 != 0:
                continue
            idx += 1
            d = b.new(inner_string(), tags=list(tags))
            for s in sl:
                if s == "with":
                    add_with_sanitizer(d, "x.trim_end().to_string()", SPELLINGS[idx % 4])
                else:
                    d.sans.append(San(s))
            apply_string_validators(d, vs, idx)
            if len(d.vals) == 1 and d.vals[0].kind in ("len_char_min", "len_char_max") and not d.sans:
                d.tags.append("C16")
            der_for(d, ["Hash"])
    # ---- other / generic
    for key in ("opt", "arr", "fvec", "bytes"):
        for variant in range(3):
            idx += 1
            d = b.new(OTHER_INNERS[key], tags=list(tags))
            if key == "bytes":
                san, pred = "{ let mut x = x; x.truncate(3); x }", "x.first() != Some(&13)"
            elif key == "opt":
                san, pred = "x.map(|v| v.wrapping_abs())", "*x != Some(13)"
            elif key == "arr":
                san, pred = "{ let mut x = x; x.sort(); x }", "x[1] != 13"
            else:
                san, pred = "{ let mut x = x; x.truncate(2); x }", "x.len() < 3"
            if variant == 1:
                add_with_sanitizer(d, san, SPELLINGS[idx % 4])
            if variant == 2:
                add_predicate(d, pred, "closure")
            # element-wise views next to the serde impls (a serializer that goes through the iterator instead of the inner value's own impl)
            der_for(d, ["IntoIterator", "AsRef", "Deref"] if "IntoIterator" in d.inner.caps else ["AsRef", "Deref"])
    for key in ("vec", "point", "cow", "gvec", "gord"):
        inner = OTHER_INNERS[key]
        for variant in range(4):
            idx += 1
            d = b.new(inner, tags=list(tags))
            if key == "gord":
                d.inner = Inner("T", "i32", "other", generics="<T: Ord + Copy + Default + ::core::fmt::Debug + From<i8>>", inst="<i32>", carrier="i32", caps=inner.caps)
            if key in ("vec", "gvec"):
                san, gsan, pred, gpred = "{ let mut x = x; x.truncate(2); x }", None, "!x.is_empty()", None
            elif key == "point":
                san, gsan, pred, gpred = "nvrt::Point { x: x.x.wrapping_abs(), y: x.y }", None, "x.x != x.y", None
            elif key == "cow":
                san, gsan, pred, gpred = "::std::borrow::Cow::Owned(x.trim().to_string())", None, "!x.is_empty()", None
            else:
                san, gsan, pred, gpred = "if x < 0 { 0 } else { x }", "if x < T::default() { T::default() } else { x }", "*x != 13", "*x != T::from(13i8)"
            if variant in (1, 3):
                add_with_sanitizer(d, san, SPELLINGS[(idx + 1) % 4], generic_body=gsan)
            if variant in (2, 3):
                add_predicate(d, pred, SPELLINGS[idx % 3], generic_body=gpred)
            der_for(d)
            if key == "cow":
                d.derives = [t for t in d.derives]
    return b.decls
