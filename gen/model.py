"""Declaration model: what is written (spellings) and what it denotes (computed here, in Python)."""
from dataclasses import dataclass, field
from typing import Optional, List, Any
from .floats import round_f32, round_f64, bits_f32, bits_f64
from .common import rust_str

INT_TYPES = {
    "u8": (False, 8), "u16": (False, 16), "u32": (False, 32), "u64": (False, 64), "u128": (False, 128), "usize": (False, 0),
    "i8": (True, 8), "i16": (True, 16), "i32": (True, 32), "i64": (True, 64), "i128": (True, 128), "isize": (True, 0),
}
FLOAT_TYPES = ("f32", "f64")


def int_range(ty):
    signed, bits = INT_TYPES[ty]
    b = bits or 64
    if signed:
        return -(1 << (b - 1)), (1 << (b - 1)) - 1
    return 0, (1 << b) - 1


ALL_CAPS = {"Debug", "Clone", "Copy", "PartialEq", "Eq", "PartialOrd", "Ord", "Hash", "Display", "FromStr", "Default",
            "IntoIterator", "Serialize", "Deserialize", "Arbitrary"}


@dataclass
class Inner:
    decl_ty: str            # type as written in the tuple struct
    conc_ty: str            # concrete inner type after instantiation
    fam: str                # int | float | string | other
    generics: str = ""      # e.g. "<T: Ord>"
    inst: str = ""          # e.g. "<i32>"
    carrier: Optional[str] = None   # for other: list | str | i32 | point
    caps: frozenset = frozenset()   # traits of the *inner* type

    @property
    def is_generic(self):
        return self.generics != ""


def inner_int(ty):
    return Inner(ty, ty, "int", caps=frozenset(ALL_CAPS - {"IntoIterator"}))


def inner_float(ty):
    return Inner(ty, ty, "float", caps=frozenset(ALL_CAPS - {"IntoIterator", "Eq", "Ord", "Hash"}))


def inner_string():
    return Inner("String", "String", "string", caps=frozenset(ALL_CAPS - {"IntoIterator", "Copy"}))


OTHER_INNERS = {
    "vec": Inner("Vec<i32>", "Vec<i32>", "other", carrier="list",
                 caps=frozenset(ALL_CAPS - {"Copy", "Display", "FromStr"})),
    "bytes": Inner("Vec<u8>", "Vec<u8>", "other", carrier="blist",
                   caps=frozenset(ALL_CAPS - {"Copy", "Display", "FromStr"})),
    "opt": Inner("Option<i32>", "Option<i32>", "other", carrier="opt",
                 caps=frozenset(ALL_CAPS - {"Display", "FromStr"})),
    "arr": Inner("[i32; 3]", "[i32; 3]", "other", carrier="arr3",
                 caps=frozenset(ALL_CAPS - {"Display", "FromStr"})),
    "fvec": Inner("Vec<f64>", "Vec<f64>", "other", carrier="flist",
                  caps=frozenset(ALL_CAPS - {"Copy", "Display", "FromStr", "Eq", "Ord", "Hash"})),
    "point": Inner("nvrt::Point", "nvrt::Point", "other", carrier="point",
                   caps=frozenset(ALL_CAPS - {"IntoIterator"})),
    "cow": Inner("::std::borrow::Cow<'a, str>", "::std::borrow::Cow<'static, str>", "other", generics="<'a>", inst="<'static>",
                 carrier="str", caps=frozenset(ALL_CAPS - {"Copy", "IntoIterator", "FromStr", "Arbitrary", "Default"})),
    "gvec": Inner("Vec<T>", "Vec<i32>", "other", generics="<T>", inst="<i32>", carrier="list",
                  caps=frozenset(ALL_CAPS - {"Copy", "Display", "FromStr"})),
    "gord": Inner("T", "i32", "other", generics="<T: Ord + Copy>", inst="<i32>", carrier="i32",
                  caps=frozenset(ALL_CAPS - {"IntoIterator"})),
}


@dataclass
class San:
    kind: str                      # trim | lowercase | uppercase | with
    arg: Optional[str] = None      # attribute text after `with =`
    shim: Optional[str] = None     # name of the oracle shim fn(&Value)->Value (emitted in support)

    def render(self):
        return self.kind if self.kind != "with" else f"with = {self.arg}"

    def spec(self):
        return {"trim": "nvrt::San::Trim", "lowercase": "nvrt::San::Lower", "uppercase": "nvrt::San::Upper"}.get(self.kind) or f"nvrt::San::With({self.shim})"


@dataclass
class Vld:
    kind: str                      # greater|greater_or_equal|less|less_or_equal|finite|predicate|len_char_min|len_char_max|not_empty|regex
    arg: Optional[str] = None      # attribute text after `=`
    denoted: Any = None            # int (bounds / lens), ('f32'|'f64', bits) for float bounds, pattern text for regex
    shim: Optional[str] = None     # predicate shim fn(&Value)->bool

    def render(self):
        return self.kind if self.arg is None else f"{self.kind} = {self.arg}"

    VARIANT = {"greater": "GreaterViolated", "greater_or_equal": "GreaterOrEqualViolated", "less": "LessViolated",
               "less_or_equal": "LessOrEqualViolated", "finite": "FiniteViolated", "predicate": "PredicateViolated",
               "len_char_min": "LenCharMinViolated", "len_char_max": "LenCharMaxViolated", "not_empty": "NotEmptyViolated",
               "regex": "RegexViolated"}

    @property
    def variant(self):
        return self.VARIANT[self.kind]


def value_expr(inner: Inner, v):
    """Rust expression of nvrt::Value for a denoted value of this inner type."""
    if isinstance(v, tuple) and v[0] == "f32":
        return f"nvrt::Value::F32(0x{v[1]:08x})"
    if isinstance(v, tuple) and v[0] == "f64":
        return f"nvrt::Value::F64(0x{v[1]:016x})"
    if isinstance(v, tuple) and v[0] == "list":
        return "nvrt::Value::List(vec![%s])" % ", ".join(str(x) for x in v[1])
    if isinstance(v, str):
        return f"nvrt::Value::Str({rust_str(v)}.to_string())"
    if isinstance(v, int):
        if inner.conc_ty == "u128":
            return f"nvrt::Value::U({v}u128)"
        return f"nvrt::Value::I({v}i128)"
    raise ValueError(f"value_expr: {v!r}")


def fam_expr(inner: Inner):
    if inner.fam == "int":
        s, b = INT_TYPES[inner.conc_ty]
        return "nvrt::Fam::Int { signed: %s, bits: %d }" % ("true" if s else "false", b)
    if inner.fam == "float":
        return "nvrt::Fam::F32" if inner.conc_ty == "f32" else "nvrt::Fam::F64"
    if inner.fam == "string":
        return "nvrt::Fam::Str"
    return "nvrt::Fam::Other"


@dataclass
class Decl:
    id: str
    type_name: str
    inner: Inner
    sans: List[San] = field(default_factory=list)
    vals: List[Vld] = field(default_factory=list)
    custom: Optional[tuple] = None          # (with_text, error_path, shim_name)  shim: fn(&Value)->Result<(),String>
    derives: List[str] = field(default_factory=list)
    default: Optional[tuple] = None         # (expr_text, denoted raw value)
    const_fn: bool = False
    new_unchecked: bool = False
    vis: str = "pub"
    support: List[str] = field(default_factory=list)   # Rust items emitted before the declaration
    tags: List[str] = field(default_factory=list)
    block_order: tuple = ("sanitize", "validate", "derive", "default", "const_fn", "new_unchecked")
    attr_override: Optional[str] = None     # full text inside #[nutype( ... )]
    trailing_commas: bool = False
    const_inputs: List[Any] = field(default_factory=list)   # (literal text, denoted raw value)
    doc: Optional[str] = None
    unspecified: bool = False               # the documentation does not settle whether this declaration must compile

    @property
    def has_validation(self):
        return bool(self.vals) or self.custom is not None

    def attr_text(self):
        if self.attr_override is not None:
            return self.attr_override
        tc = "," if self.trailing_commas else ""
        parts = []
        for b in self.block_order:
            if b == "sanitize" and self.sans:
                parts.append("sanitize(%s%s)" % (", ".join(s.render() for s in self.sans), tc))
            elif b == "validate":
                if self.custom:
                    parts.append("validate(with = %s, error = %s%s)" % (self.custom[0], self.custom[1], tc))
                elif self.vals:
                    parts.append("validate(%s%s)" % (", ".join(v.render() for v in self.vals), tc))
            elif b == "derive" and self.derives:
                parts.append("derive(%s%s)" % (", ".join(self.derives), tc))
            elif b == "default" and self.default is not None:
                parts.append("default = %s" % self.default[0])
            elif b == "const_fn" and self.const_fn:
                parts.append("const_fn")
            elif b == "new_unchecked" and self.new_unchecked:
                parts.append("new_unchecked")
        return ",\n    ".join(parts) + tc

    def decl_text(self):
        doc = f"/// {self.doc}\n" if self.doc else ""
        vis = (self.vis + " ") if self.vis else ""
        return "%s#[nutype(\n    %s\n)]\n%sstruct %s%s(%s);" % (doc, self.attr_text(), vis, self.type_name, self.inner.generics, self.inner.decl_ty)

    def spec_expr(self):
        sans = ", ".join(s.spec() for s in self.sans)
        vals = []
        for v in self.vals:
            k = v.kind
            if k in ("greater", "greater_or_equal", "less", "less_or_equal"):
                name = {"greater": "Greater", "greater_or_equal": "GreaterEq", "less": "Less", "less_or_equal": "LessEq"}[k]
                vals.append("nvrt::Val::%s(%s)" % (name, value_expr(self.inner, v.denoted)))
            elif k == "finite":
                vals.append("nvrt::Val::Finite")
            elif k == "predicate":
                vals.append("nvrt::Val::Pred(%s)" % v.shim)
            elif k == "len_char_min":
                vals.append("nvrt::Val::LenMin(%d)" % v.denoted)
            elif k == "len_char_max":
                vals.append("nvrt::Val::LenMax(%d)" % v.denoted)
            elif k == "not_empty":
                vals.append("nvrt::Val::NotEmpty")
            elif k == "regex":
                vals.append("nvrt::Val::Regex(%s.to_string())" % rust_str(v.denoted))
            else:
                raise ValueError(k)
        custom = "None" if not self.custom else "Some(%s)" % self.custom[2]
        default = "None" if self.default is None or self.default[1] is None else "Some(%s)" % value_expr(self.inner, self.default[1])
        tags = list(self.tags)
        if self.inner.carrier:
            tags.append("carrier=" + self.inner.carrier)
        return ("nvrt::Spec { id: %s.to_string(), type_name: %s.to_string(), fam: %s, sans: vec![%s], vals: vec![%s], custom: %s, default: %s, tags: vec![%s], src: %s.to_string() }"
                % (rust_str(self.id), rust_str(self.type_name), fam_expr(self.inner), sans, ", ".join(vals), custom, default,
                   ", ".join(rust_str(t) + ".to_string()" for t in tags), rust_str(self.decl_text())))
