"""Arbitrary corpus: serves C09 and C14 (+ C12 obtainability through Arbitrary)."""
import itertools, math
from fractions import Fraction
from .model import *
from .lib import *
from .corpus_ctor import Builder, int_bound, float_bound, float_denote
from .floats import bits_f32, bits_f64

ARB = ["Debug", "Arbitrary"]


def int_section(b, tier):
    idx = 0
    for ti, ty in enumerate(INT_TYPES):
        lo, hi = int_range(ty)
        signed = lo < 0
        bits = INT_TYPES[ty][1] or 64

        def mk(vals, tags=("C09", "C14"), sup=(), sans=None, unspecified=False):
            nonlocal idx
            idx += 1
            d = b.new(inner_int(ty), tags=list(tags))
            d.support += list(sup)
            d.vals = vals
            d.derives = list(ARB)
            d.unspecified = unspecified
            if sans:
                add_with_sanitizer(d, sans, SPELLINGS[idx % 4])
            return d

        # full range
        mk([], tags=("C09", "C14") if bits <= 16 else ("C09",))
        # range sizes around the byte boundaries, anchored at several places
        sizes = [1, 2, 255, 256, 257, 65536]
        anchors = [lo, 0, hi]
        if signed:
            anchors.append(-3)
        for si, size in enumerate(sizes):
            for ai, a in enumerate(anchors):
                if tier == "quick" and (si + ai + ti) % 3 != 0:
                    continue
                if a == hi:
                    l, h = hi - size + 1, hi
                else:
                    l, h = a, a + size - 1
                if l < lo or h > hi:
                    continue
                for (lk, uk) in [("greater_or_equal", "less_or_equal"), ("greater", "less"), ("greater", "less_or_equal"), ("greater_or_equal", "less")][(si + ai) % 4:(si + ai) % 4 + 1]:
                    lv = l if lk == "greater_or_equal" else l - 1
                    hv = h if uk == "less_or_equal" else h + 1
                    if lv < lo or hv > hi:
                        continue
                    d = mk([])
                    sp = ["lit", "const", "minmax"][(si + ai + ti) % 3]
                    d.vals = [int_bound(lk, ty, lv, sp, d, "LO"), int_bound(uk, ty, hv, sp, d, "HI")]
                    if (si + ai) % 2:
                        d.vals.reverse()
        # expression bounds of every operator class
        exprs = []
        exprs.append(("less", "ONE << 4", 16, [f"const ONE: {ty} = 1;"]))
        exprs.append(("greater", "ONE | 2", 3, [f"const ONE: {ty} = 1;"]))
        exprs.append(("less_or_equal", "SEVEN & 5", 5, [f"const SEVEN: {ty} = 7;"]))
        exprs.append(("less", "K + 1", 11, [f"const K: {ty} = 10;"]))
        exprs.append(("greater_or_equal", "K - 1", 9, [f"const K: {ty} = 10;"]))
        exprs.append(("less_or_equal", f"{ty}::MAX - 1", hi - 1, []))
        exprs.append(("greater_or_equal", f"{ty}::MIN + 1", lo + 1, []))
        exprs.append(("less", "(K)", 10, [f"const K: {ty} = 10;"]))
        exprs.append(("less", "k()", 10, [f"const fn k() -> {ty} {{ 10 }}"]))
        exprs.append(("greater", "K * 2", 20, [f"const K: {ty} = 10;"]))
        exprs.append(("less_or_equal", "A ^ B", 6, [f"const A: {ty} = 5; const B: {ty} = 3;"]))
        exprs.append(("less", "if BIG { 100 } else { 7 }", 7, ["const BIG: bool = false;"]))
        exprs.append(("greater", "K as " + ty, 40, ["const K: u8 = 40;"]))
        if signed:
            exprs.append(("greater", "-K", -10, [f"const K: {ty} = 10;"]))
            exprs.append(("greater_or_equal", "-(K) - 1", -11, [f"const K: {ty} = 10;"]))
        # user constants with the names a generator is most likely to use itself, literal-only expressions, nested parentheses
        exprs.append(("less_or_equal", "MAX", 60, [f"pub const MAX: {ty} = 60;"]))
        exprs.append(("greater_or_equal", "MIN", 7, [f"pub const MIN: {ty} = 7;"]))
        exprs.append(("less", "MAX - MIN", 53, [f"pub const MAX: {ty} = 60; pub const MIN: {ty} = 7;"]))
        exprs.append(("greater", "MIN + 1", 8, [f"pub const MIN: {ty} = 7;"]))
        exprs.append(("less", "1 << 4", 16, []))
        exprs.append(("greater", "(1 << 4) - 1", 15, []))
        exprs.append(("less_or_equal", "0x0F", 15, []))
        exprs.append(("greater", "((3))", 3, []))
        exprs.append(("less", "(A | B)", 7, [f"const A: {ty} = 5; const B: {ty} = 3;"]))
        exprs.append(("greater_or_equal", "(K + 2)", 12, [f"const K: {ty} = 10;"]))
        exprs.append(("less", "LOWER", 30, [f"const LOWER: {ty} = 30;"]))
        exprs.append(("greater", "UPPER", 30, [f"const UPPER: {ty} = 30;"]))
        exprs.append(("less_or_equal", "RANGE", 30, [f"const RANGE: {ty} = 30;"]))
        if signed:
            exprs.append(("greater_or_equal", "-MAX", -60, [f"pub const MAX: {ty} = 60;"]))
            exprs.append(("greater", "-(1 << 2)", -4, []))
        for ei, (kind, text, den, sup) in enumerate(exprs):
            if tier == "quick" and (ei + ti) % 2 != 0:
                continue
            # pair with a bound on the other side so the range stays <= 2^16 for wide types
            if kind in ("less", "less_or_equal"):
                other_v = max(lo, den - 300)
                other = Vld("greater_or_equal", str(other_v), other_v)
            else:
                other_v = min(hi, den + 300)
                other = Vld("less_or_equal", str(other_v), other_v)
            d = mk([Vld(kind, text, den), other] if ei % 2 == 0 else [other, Vld(kind, text, den)], sup=sup)
        # a bound that mentions a user constant called MIN / MAX while the *other* bound is a literal (a generator that binds its own MIN / MAX would capture it)
        mk([Vld("greater_or_equal", "MAX / 10", 6), Vld("less_or_equal", "40", 40)], sup=[f"pub const MAX: {ty} = 60;"])
        mk([Vld("less_or_equal", "MIN * 10", 70), Vld("greater_or_equal", "3", 3)], sup=[f"pub const MIN: {ty} = 7;"])
        mk([Vld("greater", "3", 3), Vld("less", "MIN * 10", 70)], sup=[f"pub const MIN: {ty} = 7;"])
        if signed:
            mk([Vld("greater_or_equal", "-MAX", -60), Vld("less_or_equal", "25", 25)], sup=[f"pub const MAX: {ty} = 60;"])
            mk([Vld("less_or_equal", "-MIN", 60), Vld("greater_or_equal", "-25", -25)], sup=[f"pub const MIN: {ty} = -60;"])
        # Default derived next to Arbitrary (a generator that centres itself on the default must still reach both ends)
        for (l_, h_, dv) in ((1, 20, 7), (0, 255, 255) if not signed else (-100, 100, 0), (3, 9, 3), (3, 9, 9)):
            d = mk([Vld("greater_or_equal", str(l_), l_), Vld("less_or_equal", str(h_), h_)])
            d.default = (str(dv), dv)
            d.derives = list(ARB) + ["Default"]
        # ... and with a default the validators reject (accepted by the macro; `Default::default()` panics, `arbitrary` must not care)
        d = mk([Vld("greater_or_equal", "5", 5), Vld("less_or_equal", "9", 9)])
        d.default = ("0", 0)
        d.derives = list(ARB) + ["Default"]
        # single-sided bounds at the extremes (wide ranges: C09 only unless the type is small)
        t14 = ("C09", "C14") if bits <= 16 else ("C09",)
        mk([Vld("greater_or_equal", f"{ty}::MIN", lo)], tags=t14)
        mk([Vld("less_or_equal", f"{ty}::MAX", hi)], tags=t14)
        mk([Vld("greater", f"{ty}::MAX - 1", hi - 1)])
        mk([Vld("less", f"{ty}::MIN + 1", lo + 1)])
        mk([Vld("greater", str(hi - 1), hi - 1)])
        mk([Vld("less", str(lo + 1), lo + 1)])
        # custom sanitizer without validation (accepted: every value is valid)
        mk([], tags=("C09",), sans="x.wrapping_add(1)")
        # custom sanitizer + bounds: the float generator refuses this combination; for integers the documentation is silent
        d = mk([Vld("less", "10", 10)], tags=("C09",), sans="x.wrapping_add(1)", unspecified=True)
        d = mk([Vld("greater_or_equal", "1", 1), Vld("less_or_equal", "100", 100)], tags=("C09",), sans="if x > 100 { 100 } else if x < 1 { 1 } else { x }", unspecified=True)


def fexact(ty, bits):
    return Fraction(bits_f32(bits)) if ty == "f32" else Fraction(bits_f64(bits))


def float_section(b, tier):
    idx = 0
    n32 = 0
    for ti, ty in enumerate(FLOAT_TYPES):
        big = ("1e10", Fraction(10) ** 10) if ty == "f32" else ("1e300", Fraction(10) ** 300)

        def mk(items, finite_at=None, tags=("C09",), sup=()):
            nonlocal idx
            idx += 1
            d = b.new(inner_float(ty), tags=list(tags))
            d.support += list(sup)
            for (k, text, ex) in items:
                d.vals.append(float_bound(k, ty, text, None, ex, d))
            if finite_at is not None:
                d.vals.insert(min(finite_at, len(d.vals)), Vld("finite"))
                d.derives = ["Debug", "Arbitrary", "PartialEq", "Eq", "PartialOrd", "Ord"]
                d.tags.append("C12")
            else:
                d.derives = list(ARB)
            return d

        mk([])                       # no validation
        mk([], finite_at=0)          # finite only
        one_sided = [("0.0", Fraction(0)), ("1.0", Fraction(1)), ("-1.5", Fraction(-3, 2)), ("100.0", Fraction(100)), big, ("-" + big[0], -big[1]),
                     ("64.0", Fraction(64)), ("16777216.0", Fraction(16777216)), ("0.1", Fraction(1, 10)), ("-0.0", "NEGZERO"), ("2.5e-3", Fraction(25, 10000)),
                     (f"{ty}::MIN_POSITIVE", "MINPOS"), (f"{ty}::MAX", "MAX"), (f"{ty}::MIN", "MIN")]
        for ki, k in enumerate(["greater", "greater_or_equal", "less", "less_or_equal"]):
            for vi, (text, ex) in enumerate(one_sided):
                if tier == "quick" and (ki + vi + ti) % 2 != 0:
                    continue
                # empty valid sets: greater = MAX (without finite: +inf is valid, so non-empty), less = MIN (-inf valid)
                fin = [None, 0, 1][(ki + vi) % 3]
                if fin is not None and ((k == "greater" and ex == "MAX") or (k == "less" and ex == "MIN")):
                    continue
                mk([(k, text, ex)], finite_at=fin)
        two_sided = [("0.0", Fraction(0), "1.0", Fraction(1)), ("-1.5", Fraction(-3, 2), "1.5", Fraction(3, 2)), ("100.0", Fraction(100), "200.0", Fraction(200)),
                     ("1e10", Fraction(10) ** 10, "2e10", 2 * Fraction(10) ** 10), ("-0.001", Fraction(-1, 1000), "0.001", Fraction(1, 1000)),
                     ("0.5", Fraction(1, 2), "0.5", Fraction(1, 2)), ("-64.0", Fraction(-64), "64.0", Fraction(64)),
                     ("16777216.0", Fraction(16777216), "16777218.0", Fraction(16777218)), (f"{ty}::MIN", "MIN", f"{ty}::MAX", "MAX"),
                     ("1.0", Fraction(1), "NEXT", "NEXT"), ("-1.0", Fraction(-1), "0.0", Fraction(0)), ("0.0", Fraction(0), "1e-30", Fraction(1, 10 ** 30)),
                     ("-5.0", Fraction(-5), "-4.0", Fraction(-4)), ("3.0", Fraction(3), "1e6", Fraction(10) ** 6)]
        for ci, (lk, uk) in enumerate(itertools.product(["greater", "greater_or_equal"], ["less", "less_or_equal"])):
            for pi, (at, a, ct, c) in enumerate(two_sided):
                if tier == "quick" and (pi + ci + ti) % 2 != 0:
                    continue
                sup = []
                if c == "NEXT":
                    # a range of a few ulps above 1.0
                    nb = (0x3F800000 + 3) if ty == "f32" else (0x3FF0000000000000 + 3)
                    lit = repr(bits_f32(nb)) if ty == "f32" else repr(bits_f64(nb))
                    sup = [f"const NEXT: {ty} = {lit};"]
                    cden = fexact(ty, nb)
                else:
                    cden = c
                if at == ct and (lk == "greater" or uk == "less"):
                    continue
                fin = [None, 0, 2][(pi + ci) % 3]
                d = mk([(lk, at, a), (uk, ct, cden)] if (pi + ci) % 2 == 0 else [(uk, ct, cden), (lk, at, a)], finite_at=fin, sup=sup)
                if ty == "f32" and tier == "thorough" and n32 < 8 and pi in (0, 1, 2, 6):
                    d.tags.append("sweep32")
                    n32 += 1
        # expression-valued bounds (the generator splices them into its own arithmetic: operator precedence, parenthesised / unary forms)
        esup = [f"const BASE: {ty} = 4.0; const STEP: {ty} = 2.0;"]
        lows = [("BASE + STEP", Fraction(6)), ("BASE - STEP", Fraction(2)), ("BASE - 3.0", Fraction(1)), ("(BASE + STEP)", Fraction(6)), ("-BASE + 1.0", Fraction(-3)), ("-(BASE - 1.0)", Fraction(-3)),
                ("BASE * 0.5 - 1.0", Fraction(1)), ("1.0 + 2.0", Fraction(3)), ("-BASE", Fraction(-4)), ("BASE / STEP", Fraction(2)), ("{ BASE + STEP }", Fraction(6)), ("(BASE) + (STEP)", Fraction(6))]
        ups = [("8.0", Fraction(8)), ("BASE + BASE", Fraction(8)), ("BASE * STEP + 1.0", Fraction(9)), ("(BASE + STEP) + 2.5", Fraction(17, 2)), ("16.0 - BASE - STEP", Fraction(10)), ("-1.0 + 10.0", Fraction(9))]
        for li, (lt, lv) in enumerate(lows):
            for ui, (ut, uv) in enumerate(ups):
                if tier == "quick" and (li + ui + ti) % 2 != 0:
                    continue
                lk = ["greater_or_equal", "greater"][(li + ui) % 2]
                uk = ["less_or_equal", "less"][(li + ui // 2) % 2]
                items = [(lk, lt, lv), (uk, ut, uv)]
                mk(items if (li + ui) % 3 else items[::-1], finite_at=[None, 0][(li + ui) % 2], sup=esup)
        for li, (lt, lv) in enumerate(lows):
            mk([(["greater_or_equal", "greater"][li % 2], lt, lv)], finite_at=[None, 1][li % 2], sup=esup)
            mk([(["less", "less_or_equal"][li % 2], lt, lv)], finite_at=[0, None][li % 2], sup=esup)
        mk([("greater_or_equal", "MIN", Fraction(2)), ("less_or_equal", "MAX", Fraction(30))], sup=[f"pub const MIN: {ty} = 2.0; pub const MAX: {ty} = 30.0;"])
        mk([("greater", "-MAX", Fraction(-30)), ("less", "MAX", Fraction(30))], finite_at=0, sup=[f"pub const MAX: {ty} = 30.0;"])
        mk([("greater_or_equal", "LOWER", Fraction(2)), ("less_or_equal", "UPPER", Fraction(30))], sup=[f"const LOWER: {ty} = 2.0; const UPPER: {ty} = 30.0;"])
        mk([("greater_or_equal", "RANGE", Fraction(2)), ("less", "X", Fraction(30))], finite_at=2, sup=[f"const RANGE: {ty} = 2.0; const X: {ty} = 30.0;"])
        # user constants named like a generator's own helper constants, inside exclusive-bound expressions
        for nm in ("DELTA", "CORRECTION", "EPS", "STEP", "OFFSET", "SCALE"):
            mk([("less", "1.0 - %s" % nm, Fraction(3, 4))], finite_at=[None, 0][len(nm) % 2], sup=[f"pub const {nm}: {ty} = 0.25;"])
            mk([("greater", "%s - 1.0" % nm, Fraction(-3, 4)), ("less", "1.0 - %s" % nm, Fraction(3, 4))], sup=[f"pub const {nm}: {ty} = 0.25;"])
        # subnormal exclusive bounds (a correction step proportional to the bound underflows there)
        subn = ("1.0e-40", Fraction(1, 10 ** 40)) if ty == "f32" else ("1.0e-310", Fraction(1, 10 ** 310))
        mk([("greater", subn[0], subn[1])])
        mk([("less", "-" + subn[0], -subn[1])], finite_at=0)
        mk([("greater", subn[0], subn[1]), ("less", "1.0", Fraction(1))])
        mk([("greater", "-1.0", Fraction(-1)), ("less", "-" + subn[0], -subn[1])], finite_at=2)
        # const-valued bounds
        mk([("greater", "LO", Fraction(-7)), ("less", "HI", Fraction(7))], sup=[f"const LO: {ty} = -7.0; const HI: {ty} = 7.0;"])
        mk([("greater_or_equal", "LO", Fraction(1, 4))], finite_at=1, sup=[f"const LO: {ty} = 0.25;"])


def string_section(b, tier):
    idx = 0
    san_lists = [[], ["trim"], ["lowercase"], ["uppercase"], ["trim", "lowercase"], ["lowercase", "trim"], ["uppercase", "trim"], ["trim", "uppercase"]]
    vsets = []
    for mn in (None, 0, 1, 3, 5, 40):
        for mx in (None, 0, 1, 3, 5, 60):
            for ne in (False, True):
                if mn is not None and mx is not None and mn > mx:
                    continue
                if ne and mx == 0:
                    continue
                items = []
                if mn is not None:
                    items.append(("len_char_min", mn))
                if mx is not None:
                    items.append(("len_char_max", mx))
                if ne:
                    items.append(("not_empty", None))
                vsets.append(items)
    for vi, items in enumerate(vsets):
        orders = list(itertools.permutations(items)) or [()]
        for oi, order in enumerate(orders):
            for si, sl in enumerate(san_lists):
                if tier == "quick" and (vi + oi + si) % 6 != 0:
                    continue
                if tier == "thorough" and (vi + oi + si) % 2 != 0:
                    continue
                idx += 1
                d = b.new(inner_string(), tags=["C09"])
                for s in sl:
                    d.sans.append(San(s))
                for (k, v) in order:
                    if k == "not_empty":
                        d.vals.append(Vld("not_empty"))
                    elif idx % 3 == 0:
                        n = "LMIN" if k == "len_char_min" else "LMAX"
                        d.support.append(f"const {n}: usize = {v};")
                        d.vals.append(Vld(k, n, v))
                    else:
                        d.vals.append(Vld(k, str(v), v))
                d.derives = list(ARB)


def string_custom_sanitizer_section(b, tier):
    """`sanitize(with = ..)` next to validators and derive(Arbitrary): the string generator cannot know what the function does and refuses the
    combination (UNSPECIFIED: any verdict); should the macro accept it, whatever `arbitrary` returns must still satisfy the validators."""
    from .lib import string_sanitizer_bodies
    bodies = {n: bdy for (n, bdy, _) in string_sanitizer_bodies()}
    for (sname, vals, sl_after) in (("take3", [("len_char_min", 5)], []), ("x2space", [("not_empty", None)], ["trim"]), ("x2space", [("len_char_min", 2), ("len_char_max", 6)], ["trim"]),
                                    ("dup", [("len_char_max", 4)], []), ("trimend", [("len_char_min", 1)], [])):
        for pos in ("first", "last"):
            d = b.new(inner_string(), tags=["C09"])
            if pos == "first":
                add_with_sanitizer(d, bodies[sname], "closure")
            for s_ in sl_after:
                d.sans.append(San(s_))
            if pos == "last":
                add_with_sanitizer(d, bodies[sname], "path")
            for (k, v) in vals:
                d.vals.append(Vld(k, None if v is None else str(v), v))
            d.derives = list(ARB)
            d.unspecified = True


def invalid_default_section(b, tier):
    for ty in ("f32", "f64"):
        d = b.new(inner_float(ty), tags=["C09"])
        d.vals = [Vld("finite"), float_bound("greater_or_equal", ty, "1.0", None, Fraction(1), d), float_bound("less_or_equal", ty, "2.0", None, Fraction(2), d)]
        d.default = ("0.0", float_denote(ty, Fraction(0)))
        d.derives = list(ARB) + ["Default"]
    for sl in ([], ["trim"]):
        d = b.new(inner_string(), tags=["C09"])
        for s_ in sl:
            d.sans.append(San(s_))
        d.vals = [Vld("len_char_min", "2", 2), Vld("len_char_max", "5", 5)]
        d.default = (rust_str(""), "")
        d.derives = list(ARB) + ["Default"]


def string_expr_section(b, tier):
    """length bounds given as expressions (the generator does arithmetic on them: `min + 16` when there is no maximum, `min * size_of::<char>()` ...)"""
    sup = "const A: usize = 32; const B: usize = 31; const N: usize = 3; const M: usize = 9;"
    mins = [("A | B", 63), ("(A | B)", 63), ("N", 3), ("N + 1", 4), ("N & 2", 2), ("N ^ 1", 2), ("M - N", 6), ("{ N }", 3), ("if N > 1 { 2 } else { 1 }", 2), ("N as usize", 3), ("M / 4", 2), ("1 + 2", 3), ("(N)", 3),
            ("N.pow(2)", 9), ("usize::MIN + 2", 2), ("0x03", 3)]
    maxs = [(None, None), ("70", 70), ("A + B + 7", 70), ("(M * 8)", 72), ("M << 3", 72), ("64 | 6", 70)]
    i = 0
    for (mt, mv) in mins:
        for (xt, xv) in maxs:
            for sl in ([], ["trim"], ["lowercase", "trim"]):
                i += 1
                if tier == "quick" and i % 3 != 0:
                    continue
                d = b.new(inner_string(), tags=["C09"])
                d.support.append(sup)
                for s_ in sl:
                    d.sans.append(San(s_))
                items = [Vld("len_char_min", mt, mv)]
                if xt:
                    items.append(Vld("len_char_max", xt, xv))
                if i % 2:
                    items.reverse()
                if i % 5 == 0:
                    items.insert(i % (len(items) + 1), Vld("not_empty"))
                d.vals = items
                d.derives = list(ARB)
    # a maximum only, as an expression
    for (xt, xv) in (("N | 4", 7), ("M - N", 6), ("(N + 1)", 4), ("N << 1", 6)):
        for sl in ([], ["trim"]):
            d = b.new(inner_string(), tags=["C09"])
            d.support.append(sup)
            for s_ in sl:
                d.sans.append(San(s_))
            d.vals = [Vld("len_char_max", xt, xv)]
            d.derives = list(ARB)


def other_section(b, tier):
    for key in ("opt", "arr", "fvec"):
        d = b.new(OTHER_INNERS[key], tags=["C09"])
        d.derives = list(ARB)
        d = b.new(OTHER_INNERS[key], tags=["C09"])
        add_with_sanitizer(d, {"opt": "x.map(|v| v.wrapping_abs())", "arr": "{ let mut x = x; x.sort(); x }", "fvec": "{ let mut x = x; x.truncate(2); x }"}[key], "closure")
        d.derives = list(ARB)
    for key in ("vec", "point", "gvec", "gord"):
        inner = OTHER_INNERS[key]
        for variant in range(2):
            d = b.new(inner, tags=["C09"])
            if key == "gord":
                d.inner = Inner("T", "i32", "other", generics="<T: Ord + Copy + Default>", inst="<i32>", carrier="i32", caps=inner.caps)
            if variant == 1:
                if key in ("vec", "gvec"):
                    add_with_sanitizer(d, "{ let mut x = x; x.truncate(2); x }", "mut" if key == "vec" else "closure")
                elif key == "point":
                    add_with_sanitizer(d, "nvrt::Point { x: x.x.wrapping_abs(), y: x.y }", "closure")
                else:
                    add_with_sanitizer(d, "if x < 0 { 0 } else { x }", "closure", generic_body="if x < T::default() { T::default() } else { x }")
            d.derives = list(ARB)


def build(tier, seed):
    b = Builder("a", tier, seed)
    int_section(b, tier)
    float_section(b, tier)
    string_section(b, tier)
    string_expr_section(b, tier)
    string_custom_sanitizer_section(b, tier)
    invalid_default_section(b, tier)
    other_section(b, tier)
    return b.decls
