"""Generic flow of a runtime check: corpus -> workspace -> build (+quarantine) -> monitors ->
violations vs known findings -> evidence -> exit code."""
import json, os, sys, time, hashlib
from .common import *
from . import cratebuild
from .glue import emit_module

EXIT_HELD, EXIT_VIOLATED, EXIT_INCONCLUSIVE = 0, 1, 2


def load_known():
    p = os.path.join(VERIF, "known_findings.json")
    if not os.path.exists(p):
        return []
    with open(p) as f:
        return json.load(f).get("findings", [])


# a known finding is a cause class of the tree, not of one build configuration: the configuration twins prefix their signatures, the prefix is ignored here
CONFIG_PREFIXES = ("debug-assertions-off:", "cfg-fuzzing:", "nutype-std-feature-off:")


def match_known(known, prop, signature):
    for pre in CONFIG_PREFIXES:
        if signature.startswith(pre):
            signature = signature[len(pre):]
    for k in known:
        if k.get("status") != "known" or k.get("property") != prop:
            continue
        if k.get("signature") == signature:
            return k
    return None


class Result:
    def __init__(self, prop, tier, seed):
        self.prop, self.tier, self.seed = prop, tier, seed
        self.t0 = time.time()
        self.evaluations = 0
        self.classes = set()          # distinct non-trivial cases (strings)
        self.rule = ""
        self.samples = []
        self.hist = {}
        self.guards = {}              # name -> (value, threshold, ok)
        self.exhaustive = []
        self.quarantined = {}
        self.violations = []          # dicts with signature, decl, input, observed, expected, detail, replay
        self.inconclusive = []
        self.assumptions = []
        self.extra = {}
        self.declarations = 0

    def guard(self, name, value, threshold):
        ok = value >= threshold
        self.guards[name] = {"value": value, "threshold": threshold, "ok": ok}
        if not ok:
            self.inconclusive.append("guard not met: %s = %s < %s" % (name, value, threshold))

    def add_hist(self, h):
        for k, v in h.items():
            self.hist[k] = self.hist.get(k, 0) + v


def write_witness(res: Result, v, module_text=None, decl_src=None, kind="runtime", features=None):
    os.makedirs(os.path.join(WORK, "replay"), exist_ok=True)
    body = {"property": res.prop, "tier": res.tier, "seed": res.seed, "generator_version": GENERATOR_VERSION, "kind": kind,
            "decl_id": v.get("decl"), "declaration_source": decl_src, "module_text": module_text, "features": features,
            "input": v.get("input"), "observed": v.get("observed"), "expected": v.get("expected"), "signature": v.get("signature"),
            "detail": v.get("detail")}
    h = hashlib.sha256(json.dumps([body["property"], body["decl_id"], body["signature"], body["input"]], sort_keys=True).encode()).hexdigest()[:8]
    p = os.path.join(WORK, "replay", "%s-%s.json" % (res.prop, h))
    with open(p, "w") as f:
        json.dump(body, f, indent=1, ensure_ascii=False)
    return p


def finish(res: Result, level="exploration"):
    """print verdict lines, write evidence, return exit code"""
    known = load_known()
    new_viol = []
    known_hits = {}
    for v in res.violations:
        k = match_known(known, res.prop, v["signature"])
        if k:
            known_hits.setdefault(v["signature"], {"what": k.get("what", ""), "count": 0, "example": v})
            known_hits[v["signature"]]["count"] += v.get("count", 1)
        else:
            new_viol.append(v)
    for sig, kh in sorted(known_hits.items()):
        print("KNOWN-FINDING: property=%s %s [signature=%s; seen %d time(s) this run, e.g. decl %s input %s]" % (
            res.prop, kh["what"], sig, kh["count"], kh["example"].get("decl"), kh["example"].get("input")))
    # one VIOLATION line per distinct signature
    seen = set()
    for v in new_viol:
        if v["signature"] in seen:
            continue
        seen.add(v["signature"])
        print("VIOLATION property=%s replay=%s" % (res.prop, v.get("replay", "-")))
        print("  signature=%s decl=%s input=%s observed=%s expected=%s" % (v["signature"], v.get("decl"), v.get("input"), v.get("observed"), v.get("expected")))
    status = "violated" if new_viol else ("inconclusive" if res.inconclusive else "held")
    for r in res.inconclusive:
        print("INCONCLUSIVE property=%s reason=%s" % (res.prop, r))
    ev = {
        "property_id": res.prop, "tier": res.tier, "seed": res.seed, "level": level,
        "coverage": {
            "evaluations": int(res.evaluations),
            "distinct_nontrivial": len(res.classes),
            "rule": res.rule,
            "samples": res.samples[:12] or ["<none>"],
            "exhaustive": bool(res.exhaustive) and res.extra.get("exhaustive_overall", False),
            "exhaustive_spaces": res.exhaustive[:40],
            "declarations_built": res.declarations,
            "quarantined": res.quarantined,
            "outcome_histogram": dict(sorted(res.hist.items(), key=lambda kv: -kv[1])[:60]),
            "guards": res.guards,
            "known_findings_hit": {s: {"count": k["count"], "what": k["what"]} for s, k in known_hits.items()},
            "new_violation_signatures": sorted(seen),
            "status": status,
            "inconclusive_reasons": res.inconclusive,
        },
        "assumptions": res.assumptions,
        "wall_s": round(time.time() - res.t0, 2),
        "violations": len(new_viol),
    }
    ev["coverage"].update(res.extra.get("coverage_extra", {}))
    os.makedirs(EVIDENCE_DIR, exist_ok=True)
    with open(os.path.join(EVIDENCE_DIR, res.prop + ".json"), "w") as f:
        json.dump(ev, f, indent=1, ensure_ascii=False, default=str)
    print("%s property=%s tier=%s seed=%s evaluations=%d distinct_nontrivial=%d declarations=%d wall=%.1fs" % (
        status.upper(), res.prop, res.tier, res.seed, res.evaluations, len(res.classes), res.declarations, time.time() - res.t0))
    if new_viol:
        return EXIT_VIOLATED
    if res.inconclusive:
        return EXIT_INCONCLUSIVE
    return EXIT_HELD


def log(msg):
    print("[nvcheck] " + msg, file=sys.stderr, flush=True)


def runtime_check(res: Result, ws_name, decls, props_to_run, extra_emit=None, features=cratebuild.ALL_FEATURES, parts=16, max_quarantine_frac=0.2, extra_args=None,
                  failure_handler=None, profile=None, rustflags=None, default_features=True, monitor_tier=None):
    """Build the workspace for decls, run monitors for each property in props_to_run; returns
    (reports_by_prop, modules_by_id). Fills res.quarantined / res.inconclusive."""
    modules = []
    by_id = {}
    for d in decls:
        em, ei = (extra_emit(d) if extra_emit else (None, None))
        mt = emit_module(d, em, ei)
        modules.append((d.id, mt))
        by_id[d.id] = (d, mt)
    ws = cratebuild.Workspace(ws_name, profile=profile, rustflags=rustflags, default_features=default_features)
    ok, quarantined, info = cratebuild.build_workspace(ws, modules, features, log=log)
    log("build %s: ok=%s quarantined=%d %s" % (ws_name, ok, len(quarantined), {k: v for k, v in info.items() if k in ("rounds", "build_s")}))
    res.declarations = len(modules) - len(quarantined)
    unspec = {k: v for k, v in quarantined.items() if by_id[k][0].unspecified}
    quarantined = {k: v for k, v in quarantined.items() if k not in unspec}
    res.extra.setdefault("coverage_extra", {})["unspecified_declarations_rejected"] = {k: by_id[k][0].decl_text() for k in unspec}
    res.quarantined = {k: {"decl": by_id[k][0].decl_text(), "errors": v, "tags": list(by_id[k][0].tags), "derives": list(by_id[k][0].derives)} for k, v in quarantined.items()}
    if not ok:
        res.inconclusive.append("harness build failed: %s" % (json.dumps(info)[:1500]))
        return None, by_id
    if len(quarantined) > max_quarantine_frac * len(modules):
        res.inconclusive.append("more than %d%% of the corpus does not compile (%d of %d)" % (int(max_quarantine_frac * 100), len(quarantined), len(modules)))
    out = {}
    for prop in props_to_run:
        outdir = os.path.join(ws.dir, "out")
        reports, failures, dt = cratebuild.run_monitor(ws, prop, monitor_tier or res.tier, res.seed, outdir, parts=parts, timeout=(3400 if res.tier == "quick" else 6 * 3600),
                                                       extra_args=(extra_args or []) + ["--expect-subjects", str(len(modules) - len(quarantined) - len(unspec))])
        log("monitor %s: %d reports, %d failures, %.1fs" % (prop, len(reports), len(failures), dt))
        for f in failures:
            if failure_handler and failure_handler(res, f, ws, prop, by_id):
                continue
            res.inconclusive.append("monitor process failed: %s" % json.dumps(f)[:600])
        out[prop] = reports
    return out, by_id


def absorb_reports(res: Result, reports, by_id, prop=None):
    """fold DeclReports into the result; violations get witness files"""
    for r in reports:
        res.evaluations += r["executions"]
        for c in r["classes"]:
            res.classes.add("%s|%s" % (r["decl"], c))
        res.add_hist(r["hist"])
        for s in r["samples"]:
            if len(res.samples) < 12:
                res.samples.append(s)
        for sp, n in r["exhaustive"]:
            res.exhaustive.append({"decl": r["decl"], "space": sp, "size": n})
        for m in r["inconclusive"]:
            res.inconclusive.append("%s: %s" % (r["decl"], m))
        for v in r["violations"]:
            did = r["decl"]
            base = did.split(":")[-1] if did not in by_id else did
            d, mt = by_id.get(base, (None, None))
            vv = dict(v)
            vv["decl"] = did
            vv["count"] = r["violation_counts"].get(v["signature"], 1)
            vv["replay"] = write_witness(res, vv, mt, d.decl_text() if d else None)
            res.violations.append(vv)
