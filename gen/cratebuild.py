"""Write generated workspaces, build them with cargo (offline), attribute diagnostics to
declarations by span, quarantine non-compiling declarations, run monitor binaries in parallel."""
import json, os, re, shutil, subprocess, time, concurrent.futures
from .common import *

ALL_FEATURES = ["std", "serde", "arbitrary", "regex", "new_unchecked"]

PROFILE = """
[profile.dev]
opt-level = 0
debug = 0
incremental = false

[profile.dev.package."*"]
opt-level = 2
"""


def dep_block(features=ALL_FEATURES, default_features=True, with_nvrt=True, extra=""):
    feats = ", ".join('"%s"' % f for f in features)
    s = 'nutype = { path = "%s/nutype", default-features = %s, features = [%s] }\n' % (REPO, "true" if default_features else "false", feats)
    if with_nvrt:
        s += 'nvrt = { path = "%s/rt" }\n' % VERIF
        s += 'serde = { version = "1.0.150", features = ["derive"] }\nserde_json = "1.0.89"\nron = "0.8.1"\nrmp-serde = "1.1.2"\narbitrary = "1.3.0"\nregex = "1"\n'
    return s + extra


class Workspace:
    """A cargo workspace of shard libs + one runner bin."""

    def __init__(self, name, nshards=16, profile=None, rustflags=None, default_features=True):
        self.name = name
        self.profile = profile or PROFILE
        self.rustflags = rustflags            # list of rustc flags for every crate of this workspace (written to .cargo/config.toml)
        self.default_features = default_features
        self.dir = os.path.join(WORK, name)
        self.nshards = nshards
        self.shard_src = {}       # shard index -> text
        self.modranges = {}       # file path -> [(start,end,decl_id)]
        self.target = os.path.join(WORK, "target")
        # the runner binary is named after the workspace: several workspaces share one target dir, and cargo
        # does not re-uplift a fresh binary, so a common name would silently run another workspace's monitors
        self.bin_name = "runner_" + "".join(c if c.isalnum() else "_" for c in name)
        # crate names must be unique across workspaces too: cargo hashes path sources relative to the workspace
        # root, so equally named members of two workspaces collide in a shared target dir
        self.prefix = "s_" + "".join(c if c.isalnum() else "_" for c in name) + "_"

    def write(self, modules, features=ALL_FEATURES):
        """modules: list of (decl_id, module_text). Declarations whose id starts with `r` (the seeded random tail) go to
        shards of their own, so the core shards stay byte-identical across seeds and are not rebuilt."""
        core = [m for m in modules if not m[0].startswith("r")]
        tail = [m for m in modules if m[0].startswith("r")]
        n = max(1, min(self.nshards, (len(core) + 7) // 8))
        self.nshards_used = n
        shards = [[] for _ in range(n)]
        for i, m in enumerate(core):
            # homonym declarations (ids `h...`: same type name, different rules) must share one crate: the macro runs once per crate, so only
            # there could macro-side state keyed by the type name leak from one declaration into the next
            shards[0 if m[0].startswith("h") else i % n].append(m)
        if tail:
            nt = max(1, min(4, (len(tail) + 59) // 60))
            tshards = [[] for _ in range(nt)]
            for i, m in enumerate(tail):
                tshards[i % nt].append(m)
            shards += tshards
        members = []
        for k, mods in enumerate(shards):
            cname = "%s%02d" % (self.prefix, k)
            members.append(cname)
            text = ["#![allow(dead_code, unused_imports, non_snake_case, non_camel_case_types, clippy::all)]"]
            ranges = []
            line = 2
            for (did, mt) in mods:
                nl = mt.count("\n")
                ranges.append((line, line + nl - 1, did))
                text.append(mt.rstrip("\n"))
                line += nl
            reg = "pub fn register(v: &mut Vec<Box<dyn nvrt::Subject>>) {\n" + "".join("    v.push(%s::subject());\n" % did for did, _ in mods) + "}\n"
            text.append(reg)
            src = "\n".join(text) + "\n"
            p = os.path.join(self.dir, cname, "src", "lib.rs")
            write_if_changed(p, src)
            self.modranges[os.path.join(cname, "src", "lib.rs")] = ranges
            write_if_changed(os.path.join(self.dir, cname, "Cargo.toml"),
                             '[package]\nname = "%s"\nversion = "0.1.0"\nedition = "2021"\n\n[dependencies]\n%s' % (cname, dep_block(features, default_features=self.default_features)))
        main = "fn main() {\n    let mut v: Vec<Box<dyn nvrt::Subject>> = Vec::new();\n" + "".join("    %s::register(&mut v);\n" % m for m in members) + "    nvrt::runner::main(v);\n}\n"
        write_if_changed(os.path.join(self.dir, "runner", "src", "main.rs"), main)
        deps = "".join('%s = { path = "../%s" }\n' % (m, m) for m in members)
        write_if_changed(os.path.join(self.dir, "runner", "Cargo.toml"),
                         '[package]\nname = "%s"\nversion = "0.1.0"\nedition = "2021"\n\n[[bin]]\nname = "%s"\npath = "src/main.rs"\n\n[dependencies]\nnvrt = { path = "%s/rt" }\n%s' % (self.bin_name, self.bin_name, VERIF, deps))
        # remove stale shards
        for e in os.listdir(self.dir):
            if (e.startswith("shard") or e.startswith("s_")) and e not in members:
                shutil.rmtree(os.path.join(self.dir, e), ignore_errors=True)
        ws = '[workspace]\nresolver = "2"\nmembers = [%s]\n%s' % (", ".join('"%s"' % m for m in members + ["runner"]), self.profile)
        write_if_changed(os.path.join(self.dir, "Cargo.toml"), ws)
        lock = os.path.join(self.dir, "Cargo.lock")
        if not os.path.exists(lock):
            shutil.copy(os.path.join(REPO, "Cargo.lock"), lock)
        cfg = os.path.join(self.dir, ".cargo", "config.toml")
        if self.rustflags:
            write_if_changed(cfg, "[build]\nrustflags = [%s]\n" % ", ".join('"%s"' % x for x in self.rustflags))
        elif os.path.exists(cfg):
            os.remove(cfg)

    def attribute(self, diags):
        """map error diagnostics to declaration ids; returns (by_decl, unattributed)"""
        by = {}
        un = []
        for d in diags:
            hit = None
            for sp in d["spans"]:
                fn = sp["file_name"]
                for key, ranges in self.modranges.items():
                    if fn.endswith(key):
                        for (a, b, did) in ranges:
                            if a <= sp["line_start"] <= b:
                                hit = did
                                break
                    if hit:
                        break
                if hit and sp.get("is_primary"):
                    break
            if hit:
                by.setdefault(hit, []).append(d)
            else:
                un.append(d)
        return by, un


def cargo_json(cmd, cwd, target, timeout=3000):
    env = dict(ENV)
    env["CARGO_TARGET_DIR"] = target
    rc, out, err, dt = run(cmd, cwd=cwd, timeout=timeout, env=env)
    diags = []
    for line in out.splitlines():
        if not line.startswith("{"):
            continue
        try:
            j = json.loads(line)
        except Exception:
            continue
        if j.get("reason") != "compiler-message":
            continue
        m = j["message"]
        if m.get("level") not in ("error", "error: internal compiler error"):
            continue
        spans = list(m.get("spans", []))
        # include expansion call sites
        extra = []
        for sp in spans:
            e = sp.get("expansion")
            while e:
                extra.append(e["span"])
                e = e["span"].get("expansion")
        diags.append({"code": (m.get("code") or {}).get("code"), "message": m.get("message", ""), "spans": spans + extra,
                      "rendered": (m.get("rendered") or "")[:1500], "package": j.get("package_id", "")})
    return rc, diags, err, dt


def tree_fingerprint():
    """hash of everything a declaration's compile verdict depends on besides its own text"""
    import hashlib
    h = hashlib.sha256()
    roots = [os.path.join(REPO, "nutype_macros"), os.path.join(REPO, "nutype"), os.path.join(VERIF, "rt", "src")]
    for root in roots:
        for dp, dn, fn in sorted(os.walk(root)):
            dn[:] = sorted(d for d in dn if d not in ("target", ".git"))
            for f in sorted(fn):
                if f.endswith((".rs", ".toml")):
                    p = os.path.join(dp, f)
                    h.update(p.encode())
                    with open(p, "rb") as fh:
                        h.update(fh.read())
    rc, out, err, dt = run(["rustc", "--version"])
    h.update(out.encode())
    return h.hexdigest()


def build_workspace(ws: Workspace, modules, features=ALL_FEATURES, max_rounds=14, log=None):
    """Build; quarantine declarations that do not compile. Returns (ok, quarantined{did:[diags]}, info)."""
    quarantined = {}
    mods = list(modules)
    t0 = time.time()
    # quarantine cache: a module's verdict depends only on its text, the nutype sources, nvrt and the toolchain
    fp = tree_fingerprint() + ":" + ",".join(features) + ":" + str(ws.default_features) + ":" + " ".join(ws.rustflags or []) + ":" + (__import__("hashlib").sha1(ws.profile.encode()).hexdigest()[:8] if ws.profile != PROFILE else "0")
    cache_path = os.path.join(ws.dir, "quarantine_cache.json")
    cache = {}
    try:
        with open(cache_path) as f:
            cache = json.load(f)
    except Exception:
        cache = {}
    if cache.get("fingerprint") == fp:
        cached = cache.get("decls", {})
        text_of = dict(mods)
        for did, ent in cached.items():
            if did in text_of and sha8(text_of[did]) == ent.get("text_sha"):
                quarantined[did] = ent["diags"]
        mods = [(did, mt) for (did, mt) in mods if did not in quarantined]

    def save_cache():
        text_of = dict(modules)
        os.makedirs(ws.dir, exist_ok=True)
        with open(cache_path, "w") as f:
            json.dump({"fingerprint": fp, "decls": {did: {"text_sha": sha8(text_of[did]), "diags": dg} for did, dg in quarantined.items()}}, f)

    for rnd in range(max_rounds):
        ws.write(mods, features)
        rc, diags, err, dt = cargo_json(["cargo", "build", "--offline", "--message-format=json", "--keep-going", "-q"], ws.dir, ws.target)
        if rc == 0:
            save_cache()
            return True, quarantined, {"rounds": rnd + 1, "build_s": time.time() - t0}
        by, un = ws.attribute(diags)
        if log:
            log("build round %d: rc=%d errors=%d attributed_decls=%d unattributed=%d" % (rnd, rc, len(diags), len(by), len(un)))
        if not by:
            return False, quarantined, {"rounds": rnd + 1, "build_s": time.time() - t0, "stderr": err[-4000:], "unattributed": [d["rendered"] for d in un[:5]]}
        for did, ds in by.items():
            quarantined[did] = [{"code": d["code"], "message": d["message"][:300], "rendered": d["rendered"][:2500]} for d in ds[:4]]
        mods = [(did, mt) for (did, mt) in mods if did not in quarantined]
    return False, quarantined, {"rounds": max_rounds, "build_s": time.time() - t0, "stderr": "too many quarantine rounds"}


def run_monitor(ws: Workspace, prop, tier, seed, outdir, parts=16, only=None, only_input=None, timeout=3400, extra_args=None):
    exe = os.path.join(ws.target, "debug", ws.bin_name)
    os.makedirs(outdir, exist_ok=True)
    local_exe = exe
    jobs = []
    if only:
        parts = 1
    outs = []
    procs = []
    t0 = time.time()
    for p in range(parts):
        out = os.path.join(outdir, "%s.part%02d.jsonl" % (prop, p))
        outs.append(out)
        cmd = [local_exe, "--property", prop, "--tier", tier, "--seed", str(seed), "--part", "%d/%d" % (p, parts), "--out", out]
        if only:
            cmd += ["--only", only]
        if only_input is not None:
            cmd += ["--input", only_input]
        if extra_args:
            cmd += extra_args
        procs.append((subprocess.Popen(cmd, stdout=subprocess.PIPE, stderr=subprocess.PIPE, env=ENV), out, cmd))
    reports = []
    failures = []
    for (p, out, cmd) in procs:
        try:
            so, se = p.communicate(timeout=max(1, timeout - (time.time() - t0)))
        except subprocess.TimeoutExpired:
            p.kill()
            so, se = p.communicate()
            failures.append({"cmd": " ".join(cmd), "why": "timeout"})
            continue
        if p.returncode != 0:
            failures.append({"cmd": " ".join(cmd), "why": "exit %d" % p.returncode, "stderr": se.decode("utf-8", "replace")[-2000:]})
            continue
        with open(out, "r", encoding="utf-8") as f:
            for line in f:
                line = line.strip()
                if line:
                    reports.append(json.loads(line))
    return reports, failures, time.time() - t0
