"""C05 corpus: victims (declarations) x attack catalogue with positive-control twins."""
from .verdict import Case

VIEW = ["Debug", "Clone", "PartialEq", "AsRef", "Deref", "Borrow", "Into"]


class Victim:
    def __init__(self, key, inner, attrs, valid, raw, derives, has_validation, generics="", inst="", new_unchecked=False, pre="", elem=None):
        self.key, self.inner, self.attrs, self.valid, self.raw = key, inner, attrs, valid, raw
        self.derives, self.has_validation, self.generics, self.inst = set(derives), has_validation, generics, inst
        self.new_unchecked, self.pre, self.elem = new_unchecked, pre, elem

    def text(self, vis="pub", wrap_outer=False, decl_attr="", field_vis="", flag=None):
        attrs = list(self.attrs)
        if self.derives:
            attrs.append("derive(%s)" % ", ".join(sorted(self.derives)))
        if self.new_unchecked if flag is None else flag:
            attrs.append("new_unchecked")
        conc = self.inner.replace("X", "i32") if self.generics else self.inner
        ctor = "T::try_new(%s).unwrap()" % self.valid if self.has_validation else "T::new(%s)" % self.valid
        body = ("use nutype::nutype;\n%s#[nutype(%s)]\n%s%s struct T%s(%s%s);\n"
                "pub type Inner = %s;\npub type TT = T%s;\n"
                "pub fn make() -> TT { %s }\npub fn raw() -> Inner { %s }\n" % (self.pre, ", ".join(attrs), decl_attr, vis, self.generics, field_vis, self.inner, conc, self.inst, ctor, self.raw))
        return body


def victims(tier):
    vs = []
    allint = ["Debug", "Clone", "Copy", "PartialEq", "Eq", "PartialOrd", "Ord", "Hash", "AsRef", "Deref", "Borrow", "Into", "Display", "FromStr", "TryFrom"]
    vs.append(Victim("int-validated-all", "i32", ["validate(greater = 0)"], "5", "-5", allint, True))
    vs.append(Victim("int-validated-none", "i32", ["validate(greater = 0)"], "5", "-5", [], True))
    vs.append(Victim("int-plain-from-default", "i32", ["sanitize(with = |x| x.abs())", "default = 1"], "5", "-5", ["Debug", "From", "Default", "Deref", "AsRef", "Borrow"], False))
    vs.append(Victim("int-unchecked", "i32", ["validate(greater = 0)"], "5", "-5", ["Debug", "Deref"], True, new_unchecked=True))
    vs.append(Victim("float-finite-all", "f64", ["validate(finite, less = 10.0)"], "5.0", "f64::NAN",
                     ["Debug", "Clone", "Copy", "PartialEq", "Eq", "PartialOrd", "Ord", "AsRef", "Deref", "Borrow", "Into", "Display", "FromStr", "TryFrom"], True))
    vs.append(Victim("string-validated-all", "String", ["sanitize(trim, lowercase)", "validate(not_empty, len_char_max = 8)"], '"abc"', 'String::new()',
                     ["Debug", "Clone", "PartialEq", "Eq", "PartialOrd", "Ord", "Hash", "AsRef", "Deref", "Borrow", "Into", "Display", "FromStr", "TryFrom"], True))
    vs.append(Victim("string-plain", "String", ["sanitize(trim)"], '"abc"', 'String::from(" x ")', ["Debug", "From", "Deref", "AsRef", "Borrow", "Into"], False))
    vs.append(Victim("string-validated-none", "String", ["validate(not_empty)"], '"abc"', 'String::new()', [], True))
    vs.append(Victim("vec-validated-all", "Vec<i32>", ["sanitize(with = |mut v| { v.sort(); v })", "validate(predicate = |v| !v.is_empty())"], "vec![2, 1]", "vec![]",
                     ["Debug", "Clone", "PartialEq", "Eq", "Hash", "AsRef", "Deref", "Borrow", "Into", "TryFrom", "IntoIterator"], True, elem="i32"))
    vs.append(Victim("generic-vec-validated", "Vec<X>", ["sanitize(with = |mut v| { v.sort(); v })", "validate(predicate = |v| !v.is_empty())"], "vec![2, 1]", "vec![]",
                     ["Debug", "Clone", "PartialEq", "AsRef", "Deref", "Borrow", "Into", "TryFrom", "IntoIterator"], True, generics="<X: Ord>", inst="<i32>", elem="i32"))
    vs.append(Victim("generic-unchecked", "Vec<X>", ["validate(predicate = |v| !v.is_empty())"], "vec![2, 1]", "vec![]", ["Debug", "Deref"], True, generics="<X: Ord>", inst="<i32>",
                     new_unchecked=True, elem="i32"))
    # flag combinations: const_fn x new_unchecked (qualifier order / omission slips), per family
    vs.append(Victim("int-unchecked-const", "i32", ["validate(greater = 0)", "const_fn"], "5", "-5", ["Debug", "Deref"], True, new_unchecked=True))
    vs.append(Victim("float-unchecked-const", "f64", ["validate(finite)", "const_fn"], "5.0", "f64::NAN", ["Debug", "Deref", "AsRef"], True, new_unchecked=True))
    vs.append(Victim("int-const", "i32", ["validate(less = 100)", "const_fn"], "5", "500", ["Debug", "Deref", "AsRef", "Borrow"], True))
    vs.append(Victim("string-unchecked", "String", ["sanitize(trim)", "validate(not_empty)"], '"abc"', 'String::new()', ["Debug", "Deref", "AsRef", "Borrow"], True, new_unchecked=True))
    # sanitize-only (no validators) collection / string / float newtypes with every view trait: sanitizers are guards too
    vs.append(Victim("vec-plain-all", "Vec<i32>", ["sanitize(with = |mut v| { v.sort(); v.dedup(); v })", "default = vec![]"], "vec![2, 1]", "vec![3, 3, 1]",
                     ["Debug", "Clone", "PartialEq", "Eq", "Hash", "AsRef", "Deref", "Borrow", "Into", "From", "IntoIterator", "Default"], False, elem="i32"))
    vs.append(Victim("generic-vec-plain", "Vec<X>", ["sanitize(with = |mut v| { v.sort(); v })"], "vec![2, 1]", "vec![3, 1]",
                     ["Debug", "Clone", "PartialEq", "AsRef", "Deref", "Borrow", "Into", "From", "IntoIterator"], False, generics="<X: Ord>", inst="<i32>", elem="i32"))
    vs.append(Victim("string-plain-all", "String", ["sanitize(trim, uppercase)", "default = \"X\""], '"abc"', 'String::from(" x ")',
                     ["Debug", "Clone", "PartialEq", "Eq", "PartialOrd", "Ord", "Hash", "AsRef", "Deref", "Borrow", "Into", "From", "Display", "FromStr", "Default"], False))
    vs.append(Victim("float-plain-all", "f64", ["sanitize(with = |x| x.clamp(0.0, 1.0))"], "0.5", "7.0",
                     ["Debug", "Clone", "Copy", "PartialEq", "PartialOrd", "AsRef", "Deref", "Borrow", "Into", "From", "Display", "FromStr"], False))
    return vs


def attacks_for(v: Victim):
    """(attack id, attack code, control code)"""
    out = []
    d = v.derives
    ctor_ok = "let _v = TT::try_new(x);" if v.has_validation else "let _v = TT::new(x);"
    out.append(("tuple-constructor", "let _v = T(x);", "let _v = make(); let _ = x;"))
    out.append(("struct-literal", "let _v = T { 0: x };", "let _v = make(); let _ = x;"))
    out.append(("field-read", "let _y = t.0;", "let _y = t.into_inner();"))
    out.append(("field-write", "let mut t = t; t.0 = x;", "let t = t; let _ = (t.into_inner(), x);"))
    out.append(("pattern-destructure", "let T(_y) = t;", "let _y = t.into_inner();"))
    out.append(("pattern-destructure-ref-mut", "let mut t = t; let T(ref mut _y) = t;", "let _y = t.into_inner();"))
    out.append(("private-__sanitize__", "let _ = TT::__sanitize__(x);", ctor_ok))
    out.append(("hidden-module-path", "let _v: super::victim::__nutype_T__::T%s = make();" % v.inst, "let _v: super::victim::T%s = make();" % v.inst))
    if v.has_validation:
        out.append(("private-__validate__", "let _ = TT::__validate__(&x);", ctor_ok))
        out.append(("new-when-validators-exist", "let _v = TT::new(x);", ctor_ok))
        out.append(("From-when-validators-exist", "let _v: TT = ::core::convert::From::from(x);", ctor_ok))
        out.append(("Into-inner-to-newtype", "let _v: TT = x.into();", ctor_ok))
    if "Default" not in d:
        out.append(("default-without-default", "let _v: TT = ::core::default::Default::default();", "let _v = make();"))
    if v.new_unchecked:
        out.append(("new_unchecked-without-unsafe", "let _v = TT::new_unchecked(x);", "let _v = unsafe { TT::new_unchecked(x) };"))
    else:
        out.append(("new_unchecked-without-flag", "let _v = unsafe { TT::new_unchecked(x) };", ctor_ok))
    if "Deref" in d:
        out.append(("assign-through-deref", "let mut t = t; *t = x;", "let t = t; let _y: &Inner = &*t; let _ = x;"))
        out.append(("reborrow-mut-through-deref", "let mut t = t; let _r: &mut Inner = &mut *t;", "let t = t; let _r: &Inner = &*t;"))
        out.append(("deref_mut-method", "use ::core::ops::DerefMut; let mut t = t; let _r = t.deref_mut();", "use ::core::ops::Deref; let t = t; let _r = t.deref();"))
        out.append(("mem-swap-through-deref", "let mut t = t; let mut x = x; ::core::mem::swap(&mut *t, &mut x);", "let t = t; let _ = (&*t, x);"))
        if v.elem:
            for m in ("t.push(1)", "t.clear()", "t.get_mut(0)", "t.iter_mut()", "t.sort()", "t.truncate(0)", "t[0] = 5", "t.extend([1])", "t.swap(0, 1)", "t.retain(|_| false)",
                      "t.drain(..)", "t.as_mut_slice()", "t.first_mut()", "::core::mem::take(&mut *t)", "t.dedup()", "t.reverse()", "t.append(&mut vec![0])"):
                out.append(("mutating-method-through-deref:" + m, "let mut t = t; let _ = { %s; };" % m, "let t = t; let _ = t.len();"))
        if v.inner == "String":
            for m in ("t.make_ascii_uppercase()", "t.push('x')", "t.clear()", "t.as_mut_str()", "t.insert(0, ' ')"):
                out.append(("mutating-method-through-deref:" + m, "let mut t = t; let _ = { %s; };" % m, "let t = t; let _ = t.len();"))
    if "AsRef" in d:
        target = "str" if v.inner == "String" else "Inner"
        out.append(("as_mut", "let mut t = t; let _r: &mut %s = t.as_mut();" % target, "let t = t; let _r: &%s = t.as_ref();" % target))
    if "Borrow" in d:
        out.append(("borrow_mut", "use ::core::borrow::BorrowMut; let mut t = t; let _r: &mut Inner = t.borrow_mut();", "use ::core::borrow::Borrow; let t = t; let _r: &Inner = t.borrow();"))
    if v.elem:
        out.append(("collect-into-newtype", "let _v: TT = vec![1, 2].into_iter().collect();", "let _v: Vec<i32> = vec![1, 2].into_iter().collect(); let _ = (t, x);"))
        out.append(("Extend-on-newtype", "let mut t = t; ::core::iter::Extend::extend(&mut t, [1]);", "let mut w: Vec<i32> = vec![]; ::core::iter::Extend::extend(&mut w, [1]); let _ = (t, x);"))
        out.append(("IndexMut-on-newtype", "let mut t = t; *::core::ops::IndexMut::index_mut(&mut t, 0) = 9;", "let t = t; let _ = ::core::ops::Index::index(&*t, 0); let _ = x;") if "Deref" in d else
                   ("IndexMut-on-newtype", "let mut t = t; *::core::ops::IndexMut::index_mut(&mut t, 0) = 9;", "let _ = (t, x);"))
    if v.inner in ("i32", "f64"):
        out.append(("AddAssign-on-newtype", "let mut t = t; t += x;", "let mut y = x; y += x; let _ = t;"))
        out.append(("arithmetic-yielding-newtype", "let _v: TT = t + t;", "let _ = (t, x);") if "Copy" in d else ("arithmetic-yielding-newtype", "let _v: TT = t + make();", "let _ = (t, x);"))
    if "IntoIterator" in d:
        out.append(("for-in-mut-ref", "let mut t = t; for y in &mut t { *y = 0; }", "let t = t; for _y in &t {}"))
        out.append(("into_iter-on-mut-ref", "let mut t = t; for y in (&mut t).into_iter() { let _z: &mut i32 = y; }", "let t = t; for y in (&t).into_iter() { let _z: &i32 = y; }"))
    return out


def build(tier, seed):
    cases = []
    n = 0
    for v in victims(tier):
        for vis in ("pub", "pub(crate)"):
            vt = v.text(vis)
            for (aid, attack, control) in attacks_for(v):
                n += 1
                body_a = "pub mod victim {\n%s}\npub mod attacker {\n    use super::victim::*;\n    pub fn f() { let t = make(); let x = raw(); %s }\n}" % (vt, attack)
                body_c = "pub mod victim {\n%s}\npub mod attacker {\n    use super::victim::*;\n    pub fn f() { let t = make(); let x = raw(); %s }\n}" % (vt, control)
                ca = Case("a%04d" % n, body_a, "MUST_REJECT", "attack:%s" % aid, note="%s/%s" % (v.key, vis), group=v.key)
                cc = Case("c%04d" % n, body_c, "MUST_ACCEPT", "control:%s" % aid, control_of=ca.id, note="%s/%s" % (v.key, vis), group=v.key)
                cases += [ca, cc]
    # declaration-level attacks: an attribute or field qualifier on the declaration that would hand safe code an unguarded constructor / the field
    wrap = "pub mod victim {\n%s}\npub mod attacker {\n    use super::victim::*;\n    pub fn f() { let t = make(); let x = raw(); %s }\n}"
    decl_attacks = []
    for dv in ("derive", "::core::prelude::v1::derive", "core::prelude::v1::derive", "::std::prelude::v1::derive", "std::prelude::rust_2021::derive"):
        decl_attacks.append(("foreign-derive-Default:" + dv, "#[%s(Default)]\n" % dv, "", "let _v: TT = ::core::default::Default::default(); let _ = (t, x);", lambda v: "Default" not in v.derives))
        decl_attacks.append(("foreign-derive-Deserialize:" + dv, "#[%s(::serde::Deserialize)]\n" % dv, "", "fn need<D: for<'de> ::serde::Deserialize<'de>>() {} need::<TT>(); let _ = (t, x);", lambda v: True))
        decl_attacks.append(("foreign-derive-Arbitrary:" + dv, "#[%s(::arbitrary::Arbitrary)]\n" % dv, "", "fn need<D: for<'a> ::arbitrary::Arbitrary<'a>>() {} need::<TT>(); let _ = (t, x);", lambda v: True))
    decl_attacks.append(("pub-field", "", "pub ", "let _v = T(x); let _ = t;", lambda v: True))
    decl_attacks.append(("pub-field-read-write", "", "pub ", "let mut t = t; t.0 = x;", lambda v: True))
    decl_attacks.append(("pub(crate)-field", "", "pub(crate) ", "let _v = T(x); let _ = t;", lambda v: True))
    decl_attacks.append(("pub(super)-field", "", "pub(super) ", "let mut t = t; t.0 = x;", lambda v: True))
    for v in victims(tier):
        if v.key not in ("int-validated-none", "string-validated-none", "vec-validated-all", "generic-vec-validated", "float-plain-all", "int-unchecked"):
            continue
        for (aid, dattr, fvis, attack, applies) in decl_attacks:
            if not applies(v):
                continue
            n += 1
            ca = Case("a%04d" % n, wrap % (v.text("pub", decl_attr=dattr, field_vis=fvis), attack), "MUST_REJECT", "attack:declaration-%s" % aid, note="%s/pub" % v.key, group=v.key)
            cc = Case("c%04d" % n, wrap % (v.text("pub", decl_attr="/// documented\n#[doc = \"more\"]\n"), "let _ = (t, x);"), "MUST_ACCEPT", "control:declaration-%s" % aid, control_of=ca.id,
                      note="%s/pub" % v.key, group=v.key)
            cases += [ca, cc]
    # naming attacks: a private / restricted newtype and its generated error types from outside the permitted scope
    for (vis, label) in (("", "private"), ("pub(super)", "pub(super)"), ("pub(in crate::%s::outer)", "pub(in path)")):
        for what in ("T", "TError", "TParseError", "__nutype_T__::T", "__nutype_T__::TError", "__nutype_T__::TParseError"):
            n += 1
            cid_a, cid_c = "a%04d" % n, "c%04d" % n
            vis_a = vis % cid_a if "%s" in vis else vis
            vis_c = vis % cid_c if "%s" in vis else vis
            decl = "use nutype::nutype;\n        #[nutype(validate(greater = 0), derive(Debug, FromStr))]\n        %s struct T(i32);\n"
            # inside `inner` the type is nameable for every declared visibility; `sibling` is inside `outer` (allowed for pub(super)/pub(in outer)), `outside` never is
            tmpl = ("pub mod outer {\n    pub mod inner {\n        %s        pub fn ok(_v: Option<%s>) {}\n    }\n    %s\n}\n%s")
            hidden = what.startswith("__")
            plain = what.split("::")[-1]
            if label == "private":
                attack_site = "pub mod sibling { pub fn f(_v: Option<super::inner::%s>) {} }" % what
                body_a = tmpl % (decl % vis_a, plain, attack_site, "")
                body_c = tmpl % (decl % vis_c, plain, "", "")
            else:
                body_a = tmpl % (decl % vis_a, plain, "", "pub mod outside { pub fn f(_v: Option<super::outer::inner::%s>) {} }" % what)
                body_c = tmpl % (decl % vis_c, plain, "pub mod sibling { pub fn f(_v: Option<super::inner::%s>) {} }" % plain, "")
            cases.append(Case(cid_a, body_a, "MUST_REJECT", "attack:name-%s-from-outside:%s" % (what, label), note="naming/" + label, group="naming"))
            cases.append(Case(cid_c, body_c, "MUST_ACCEPT", "control:name-%s-from-outside:%s" % (what, label), control_of=cid_a, note="naming/" + label, group="naming"))
    return cases


def build_without_feature(tier, seed):
    """Cases for a crate that enables every nutype feature EXCEPT `new_unchecked`: the per-type flag alone must not produce the function."""
    cases = []
    n = 0
    wrap = "pub mod victim {\n%s}\npub mod attacker {\n    use super::victim::*;\n    pub fn f() { let t = make(); let x = raw(); %s }\n}"
    for v in victims(tier):
        ctor_ok = "let _v = TT::try_new(x); let _ = t;" if v.has_validation else "let _v = TT::new(x); let _ = t;"
        n += 1
        if v.new_unchecked:
            ca = Case("a%04d" % n, wrap % (v.text("pub", flag=True), "let _v = unsafe { TT::new_unchecked(x) }; let _ = t;"), "MUST_REJECT", "attack:new_unchecked-flag-without-crate-feature", note="%s/pub" % v.key, group=v.key)
        else:
            ca = Case("a%04d" % n, wrap % (v.text("pub", flag=False), "let _v = unsafe { TT::new_unchecked(x) }; let _ = t;"), "MUST_REJECT", "attack:new_unchecked-without-flag-or-feature", note="%s/pub" % v.key, group=v.key)
        cc = Case("c%04d" % n, wrap % (v.text("pub", flag=False), ctor_ok), "MUST_ACCEPT", "control:" + ca.rule.split(":", 1)[1], control_of=ca.id, note="%s/pub" % v.key, group=v.key)
        cases += [ca, cc]
    return cases
