"""Per-property checks."""
import json, os, sys, time
from .common import *
from .engine import *
from . import cratebuild, corpus_ctor, corpus_extra, corpus_serde, corpus_arb, verdict, corpus_verdict, corpus_c05, audit, corpus_nostd, corpus_spelling, corpus_random

ASSUME_COMMON = ["lowercase/uppercase meaning = this toolchain's str::to_lowercase/to_uppercase",
                 "NaN vs bound validators: either verdict accepted (DESIGN section 3)",
                 "user `with`/predicate functions are drawn from a fixed library; the oracle calls the same function bodies",
                 "rustc 1.95 stable; inputs beyond the enumerated/sampled domains are not covered"]


def ctor_decls(tier, seed):
    return (corpus_ctor.build(tier, seed) + corpus_extra.build_perm(tier, seed) + corpus_extra.build_message(tier, seed)
            + corpus_extra.build_finite(tier, seed) + corpus_extra.build_defaults(tier, seed) + corpus_extra.build_unchecked(tier, seed) + corpus_extra.build_homonyms(tier, seed) + corpus_serde.build(tier, seed) + corpus_arb.build(tier, seed)
            + corpus_random.build(tier, seed))


def fam_of(r):
    f = r["family"]
    for k, n in (("Int", "int"), ("F32", "float"), ("F64", "float"), ("Str", "string"), ("Other", "other")):
        if f.startswith(k):
            return n
    return f


def sum_guard(reports, key):
    return sum(r["guards"].get(key, 0) for r in reports)


def sum_hist(reports, pred):
    return sum(v for r in reports for k, v in r["hist"].items() if pred(k))


def stall_handler(res, failure, ws, prop, by_id):
    """C09 termination: a monitor process that made no progress for 10 s recorded (declaration, input) and exited 3.
    Re-run exactly that call alone; only a reproduced stall is a violation, anything else is inconclusive."""
    if prop != "C09" or failure.get("why") != "exit 3":
        return False
    out = failure["cmd"].split("--out ")[1].split(" ")[0]
    try:
        decl, inp = open(out + ".stall").read().split()
    except Exception:
        return False
    reports, failures2, dt = cratebuild.run_monitor(ws, "C09", res.tier, res.seed, os.path.join(ws.dir, "out-stall"), only=decl, only_input=inp, timeout=60)
    d, mt = by_id.get(decl, (None, None))
    if failures2:
        v = {"decl": decl, "signature": "arb-does-not-terminate", "input": inp, "observed": "no progress for 10 s in the sweep and again when re-run alone (%s)" % failures2[0].get("why"),
             "expected": "terminates", "detail": "", "count": 1}
        v["replay"] = write_witness(res, v, mt, d.decl_text() if d else None)
        res.violations.append(v)
    else:
        res.inconclusive.append("a monitor process stalled on %s input %s but the stall was not reproduced in isolation; the rest of its partition was not run" % (decl, inp))
    return True


# traits whose generated impl a property talks about: a declaration of the property's corpus that derives one of them, is accepted by the
# macro (no diagnostic of its own) and whose *expansion* then fails to type-check has no such impl at all - the property cannot hold for it
RELEVANT_DERIVES = {"C01": None, "C03": {"TryFrom", "From", "Default", "FromStr"}, "C04": {"Deserialize"}, "C10": {"Serialize", "Deserialize"}, "C06": {"FromStr"},
                    "C09": {"Arbitrary"}, "C14": {"Arbitrary"}, "C12": {"Eq", "Ord"},
                    "C13": {"AsRef", "Deref", "Borrow", "Into", "IntoIterator", "Display", "Clone", "Copy", "PartialEq", "Eq", "PartialOrd", "Ord", "Hash"}}


def accepted_but_uncompilable(res, prop):
    rel = RELEVANT_DERIVES.get(prop, "skip")
    if rel == "skip":
        return
    for did, q in list(res.quarantined.items()):
        if prop not in q.get("tags", []):
            continue
        if rel is not None and not (rel & set(q.get("derives", []))):
            continue
        for e in q["errors"]:
            # rustc's own error (it has a code) raised inside the macro's output; the macro's refusals carry no code, harness (glue) errors no such note
            if e.get("code") and "originates in the attribute macro `nutype`" in e.get("rendered", ""):
                v = {"decl": did, "signature": "accepted-declaration-does-not-compile:%s" % e.get("code"), "input": "<compile>", "observed": e.get("message", "")[:200],
                     "expected": "a declaration the macro accepts expands to code that compiles", "detail": q["decl"], "count": 1}
                v["replay"] = write_witness(res, v, None, q["decl"], kind="compile")
                res.violations.append(v)
                break


# The generated code is compiled inside the *user's* crate, so `cfg(debug_assertions)` / `debug_assert!` in it follow the user's profile. The main
# workspace is a dev build (debug assertions on); the properties whose monitors watch panics-or-values of `Default` and the finiteness
# invariant are run a second time on the relevant corpora in a workspace whose profile switches debug assertions off (overflow checks stay on
# for the harness's own arithmetic).
NODEBUG_PROFILE = cratebuild.PROFILE.replace("[profile.dev]\n", "[profile.dev]\ndebug-assertions = false\noverflow-checks = true\n", 1) + "debug-assertions = false\n"


def nodebug_decls(tier, seed):
    # everything whose behaviour a profile switch could plausibly gate (defaults, finiteness, serde, generators) in full, plus a quarter of the
    # constructor / permutation corpora, the message corpus, the homonyms and the seeded random tail, so that every runtime monitor has subjects here
    return (corpus_extra.build_defaults(tier, seed) + corpus_extra.build_finite(tier, seed) + corpus_extra.build_unchecked(tier, seed) + corpus_serde.build(tier, seed)
            + corpus_arb.build(tier, seed) + corpus_ctor.build(tier, seed)[::4] + corpus_extra.build_perm(tier, seed)[::4] + corpus_extra.build_message(tier, seed)
            + corpus_extra.build_homonyms(tier, seed) + corpus_random.build(tier, seed))


def nodefault_decls(tier, seed):
    return [d for d in corpus_arb.build(tier, seed) + corpus_extra.build_finite(tier, seed) if d.inner.fam in ("int", "float")]


# Build-configuration twins. The generated code is compiled inside the *user's* crate (and the macro itself by the user's cargo invocation), so what it does
# may depend on the user's profile, rustc flags and on nutype's own feature set. The main workspace is a plain dev build with nutype's default features;
# each twin rebuilds the corpora that matter under another configuration and runs the same monitors there at quick input depth (the exhaustive sweeps of the
# thorough tier stay in the main workspace; violations get the twin's name as a prefix):
#   nodebug   - `debug-assertions = false` (what `--release` gives): `cfg(debug_assertions)`, `debug_assert!` (seeded C03-k, C04-n, C05-m, C12-n, C14-m)
#   fuzzcfg   - `--cfg fuzzing`, the flag cargo-fuzz / afl.rs compile Arbitrary impls with (seeded C14-n)
#   nodefault - nutype with `default-features = false` (its `std` feature off) next to `arbitrary`/`serde` (seeded C09-m)
TWINS = [
    {"name": "nodebug", "props": {"C01", "C03", "C04", "C06", "C07", "C09", "C10", "C11", "C12", "C13", "C14", "C16"}, "decls": nodebug_decls, "profile": NODEBUG_PROFILE, "rustflags": None, "default_features": True,
     "features": cratebuild.ALL_FEATURES, "prefix": "debug-assertions-off:"},
    {"name": "fuzzcfg", "props": {"C09", "C14", "C12"}, "decls": lambda t, s_: corpus_arb.build(t, s_), "profile": None, "rustflags": ["--cfg", "fuzzing"], "default_features": True,
     "features": cratebuild.ALL_FEATURES, "prefix": "cfg-fuzzing:"},
    {"name": "nodefault", "props": {"C09", "C14", "C01"}, "decls": nodefault_decls, "profile": None, "rustflags": None, "default_features": False,
     "features": ["serde", "arbitrary", "new_unchecked"], "prefix": "nutype-std-feature-off:"},
]


def ctor_flow(prop, tier, seed, rule, guards_fn, assumptions=None):
    res = Result(prop, tier, seed)
    res.rule = rule
    out, by_id = runtime_check(res, "rt-%s" % tier, ctor_decls(tier, seed), [prop], failure_handler=stall_handler)
    if out is None:
        return finish(res)
    reports = out[prop]
    for tw in TWINS:
        if prop not in tw["props"]:
            continue
        q_main, d_main = dict(res.quarantined), res.declarations
        extra_cov = dict(res.extra.get("coverage_extra", {}))
        out2, by_id2 = runtime_check(res, "rt-%s-%s" % (tw["name"], tier), tw["decls"](tier, seed), [prop], features=tw["features"], profile=tw["profile"], rustflags=tw["rustflags"],
                                     default_features=tw["default_features"], failure_handler=stall_handler, monitor_tier="quick")
        res.quarantined, res.declarations = q_main, d_main
        res.extra["coverage_extra"] = extra_cov
        if out2 is None:
            return finish(res)
        for r in out2[prop]:
            r["decl"] = tw["name"] + ":" + r["decl"]
            for v in r.get("violations", []):
                v["signature"] = tw["prefix"] + v["signature"]
            r["violation_counts"] = {tw["prefix"] + k: v for k, v in r.get("violation_counts", {}).items()}
        res.extra.setdefault("coverage_extra", {})["declarations_rerun_in_twin:" + tw["name"]] = len(out2[prop])
        res.guard("reports_in_twin[%s]" % tw["name"], len(out2[prop]), 10)
        by_id = dict(by_id)
        by_id.update({tw["name"] + ":" + k: v for k, v in by_id2.items()})
        reports = reports + out2[prop]
    absorb_reports(res, reports, by_id)
    guards_fn(res, reports)
    accepted_but_uncompilable(res, prop)
    res.assumptions += ASSUME_COMMON + (assumptions or [])
    return finish(res)


def check_c01(tier, seed):
    def guards(res, reports):
        fams = {}
        for r in reports:
            f = fams.setdefault(fam_of(r), {"ok": 0, "err": 0, "san": 0})
            f["ok"] += r["hist"].get("ok", 0)
            f["err"] += sum(v for k, v in r["hist"].items() if k.startswith("err:"))
            f["san"] += r["guards"].get("sanitizer_changed_value", 0)
        for fam, c in sorted(fams.items()):
            res.guard("ok_observed[%s]" % fam, c["ok"], 1)
            res.guard("err_observed[%s]" % fam, c["err"], 1)
            res.guard("sanitizer_changed_value[%s]" % fam, c["san"], 1)
        res.guard("families", len(fams), 4)
        res.guard("const_evaluated", sum_guard(reports, "const_evaluated"), 1)
        res.guard("runtime_cell_bound_changes", sum_guard(reports, "runtime_cell_changed"), 20)
        res.guard("inputs_repeated_on_other_threads", sum_guard(reports, "inputs_repeated_on_other_threads"), 10000)
        res.guard("twin_groups", sum(1 for r in reports if r["decl"].startswith("twins:")), 3)
        # each bound observed below / on / above
        sides = {"Less": 0, "Equal": 0, "Greater": 0}
        for r in reports:
            for k, v in r["guards"].items():
                if k.startswith("bound"):
                    sides[k.split(":")[1]] += v
        for k, v in sides.items():
            res.guard("inputs_%s_than_bound" % k.lower(), v, 1)
    return ctor_flow("C01", tier, seed,
                     "declarations: systematic core (every bound kind x bound position x 12 integer types; float bound values incl. +-inf, -0.0, "
                     "subnormal, MIN/MAX; every permutation of every subset of {trim, lowercase|uppercase, with} x validator sets; other/generic types; "
                     "const_fn/renamed/generic twins; the permutation corpus of C07); inputs per DESIGN section 4 (all 2^8/2^16 integers, all strings <=L over the "
                     "hostile alphabet, boundary neighbourhoods, seeded random tail; thorough: all 2^32 f32 patterns for 8 declarations, every Unicode scalar). "
                     "A case is one (declaration, outcome class) pair with outcome class in {ok-unchanged, ok-sanitized, err:<variant>, twins-agree}; "
                     "distinct_nontrivial counts distinct pairs.", guards)


def check_c03(tier, seed):
    def guards(res, reports):
        cells = {}
        for r in reports:
            for k, v in r["hist"].items():
                cells[(fam_of(r), k)] = cells.get((fam_of(r), k), 0) + v
        for fam in ("int", "float", "string", "other"):
            res.guard("TryFrom<Inner>[%s]" % fam, cells.get((fam, "TryFrom<Inner>"), 0), 1)
            res.guard("From<Inner>[%s]" % fam, cells.get((fam, "From<Inner>"), 0), 1)
        for k in ("TryFrom<&str>", "From<&str>", "FromStr(String)"):
            res.guard("%s[string]" % k, cells.get(("string", k), 0), 1)
        res.guard("default_returns", sum_guard(reports, "default_returns"), 1)
        res.guard("default_panics", sum_guard(reports, "default_panics"), 1)
    return ctor_flow("C03", tier, seed,
                     "every declaration of the ctor corpus derives every admissible conversion trait (TryFrom or From alternating, FromStr, Default for a third, "
                     "defaults valid / invalid / valid only after sanitising); each conversion is called on every input of the C01 domain and compared (Ok/Err, stored "
                     "value bitwise, error variant and text) with try_new/new on the same input. A case is a (declaration, conversion, ok|err) triple or a "
                     "(declaration, default returns|panics) pair; distinct_nontrivial counts distinct ones.", guards)


def check_c06(tier, seed):
    def guards(res, reports):
        fams = {}
        for r in reports:
            f = fams.setdefault(fam_of(r), {"parse-error": 0, "validate-error": 0, "ok": 0, "san": 0})
            for k in ("parse-error", "validate-error", "ok"):
                f[k] += r["hist"].get(k, 0)
            f["san"] += r["guards"].get("sanitizer_changed_parsed_value", 0)
        fromstr_scope_verdicts(res, tier)
        for fam in ("int", "float", "other"):
            c = fams.get(fam, {})
            for k in ("parse-error", "validate-error", "ok"):
                res.guard("%s[%s]" % (k, fam), c.get(k, 0), 1)
            res.guard("sanitizer_changed_parsed_value[%s]" % fam, c.get("san", 0), 1)
    return ctor_flow("C06", tier, seed,
                     "integer, float and other/generic declarations of the ctor corpus deriving FromStr; strings: renderings ({}, {:e}, {:?}, +sign) of the C01 domain "
                     "and bounds, overflow digit strings, signs, whitespace, NaN/inf spellings, 1e400, empty/non-numeric text, random ASCII-numeric and Unicode. "
                     "Differential oracle: Inner::from_str then the constructor. A case is a (declaration, class) pair with class in {parse-error, validate:<variant>, ok, "
                     "ok-sanitized}.", guards)


def check_c07(tier, seed):
    def guards(res, reports):
        # the glue matches the generated error enum without wildcard: E0004 (missing arm = extra variant) or E0599 (no such
        # variant = missing/renamed variant) on a declaration means the enum does not have exactly the declared variants
        for did, q in list(res.quarantined.items()):
            for e in q["errors"]:
                msg = e.get("message", "")
                if e.get("code") == "E0004" or (e.get("code") == "E0599" and "no variant" in msg):
                    v = {"decl": did, "signature": "error-enum-variants-differ-from-declared:%s" % e.get("code"), "input": "<compile>", "observed": msg[:200],
                         "expected": "exactly one variant per declared validator", "detail": q["decl"], "count": 1}
                    v["replay"] = write_witness(res, v, None, q["decl"], kind="compile")
                    res.violations.append(v)
                    break
        res.guard("multi_violation_executions", sum_guard(reports, "multi_violation"), 200)
        fams = {}
        for r in reports:
            fams[fam_of(r)] = fams.get(fam_of(r), 0) + r["guards"].get("first_violated_not_first_declared", 0)
        for fam in ("int", "float", "string"):
            res.guard("first_violated_not_first_declared[%s]" % fam, fams.get(fam, 0), 1)
    return ctor_flow("C07", tier, seed,
                     "permutation corpus: permutations of the full built-in validator set per family and of its subsets (String 5 validators incl. regex and predicate; "
                     "integer lower/upper/predicate x strict/non-strict; float finite/lower/upper/predicate), contradictory expression-valued bounds, custom with/error in "
                     "every family; the error enum is matched without wildcard (compiles iff it has exactly the declared variants). Oracle: first violated validator in "
                     "declared order (NaN vs bounds three-valued). A case is a (declaration, single|multi:<variant>) pair; multi = input violating >= 2 declared rules.", guards)


def check_c11(tier, seed):
    def guards(res, reports):
        res.guard("values_changed_by_sanitizer", sum_guard(reports, "stored_differs_from_raw"), 1000)
        res.guard("chains", sum_guard(reports, "chains"), 100)
        steps = {}
        for r in reports:
            for k, v in r["hist"].items():
                steps[k] = steps.get(k, 0) + v
        for k in ("into_inner->try_new/new", "into_inner->TryFrom", "into_inner->From", "Display->FromStr"):
            res.guard("step[%s]" % k, steps.get(k, 0), 1)
    return ctor_flow("C11", tier, seed,
                     "declarations with built-in (or idempotent library) rules only: every order of {trim, lowercase|uppercase} x validator sets, numeric declarations; "
                     "for every obtainable value v (Ok results of the C01 domain; thorough adds every Unicode scalar and all pairs of a 40-char case/space set) every derived "
                     "re-entry step (into_inner->try_new, ->TryFrom, ->From, Display->FromStr) must land on v again, plus seeded random chains of length 2 (quick) / 4 "
                     "(thorough); serde steps are exercised by C10. A case is a (declaration, value-changed-by-sanitizer|value-unchanged) pair.", guards,
                     ["Display->FromStr is conditioned on the inner type's own Display/FromStr round trip (skips counted in guards)"])


def view_signature_verdicts(res, tier):
    """Type-level side of C13: the views of a lifetime- / type-parameterised newtype have exactly the types the inner value's views have
    (items handed out by `&t` live as long as the stored references, not as long as the borrow of the newtype). Each program must compile;
    each has a twin asking for strictly more than the inner type gives, which must not."""
    decls = {
        "names": ("#[nutype(validate(predicate = |v| !v.is_empty()), derive(Debug, Clone, PartialEq, AsRef, Deref, Borrow, Into, TryFrom, IntoIterator))]\npub struct W<'a>(Vec<&'a str>);", "W<'a>", "Vec<&'a str>", "&'a str"),
        "slots": ("#[nutype(derive(Debug, AsRef, Deref, Borrow, Into, From, IntoIterator))]\npub struct W<'a>(Vec<::core::cell::Cell<&'a str>>);", "W<'a>", "Vec<::core::cell::Cell<&'a str>>", "::core::cell::Cell<&'a str>"),
        "cow": ("#[nutype(sanitize(with = |c| c), derive(Debug, Clone, PartialEq, AsRef, Deref, Borrow, Into, From))]\npub struct W<'a>(::std::borrow::Cow<'a, str>);", "W<'a>", "::std::borrow::Cow<'a, str>", None),
        "gen": ("#[nutype(derive(Debug, Clone, PartialEq, AsRef, Deref, Borrow, Into, From, IntoIterator))]\npub struct W<'a, T: Clone>(Vec<&'a T>);", "W<'a, T>", "Vec<&'a T>", "&'a T"),
    }
    cases = []
    n = 0
    for key, (decl, ty, inner, item) in decls.items():
        g = "<'x, 'a, T: Clone>" if key == "gen" else "<'x, 'a>"
        progs = [
            ("AsRef", "pub fn f%s(t: &'x %s) -> &'x %s { ::core::convert::AsRef::as_ref(t) }" % (g, ty, inner), "pub fn f%s(t: &'x %s) -> &'a %s { ::core::convert::AsRef::as_ref(t) }" % (g, ty, inner)),
            ("Deref", "pub fn f%s(t: &'x %s) -> &'x %s { &**t }" % (g, ty, inner), "pub fn f%s(t: &'x %s) -> &'a %s { &**t }" % (g, ty, inner)),
            ("Borrow", "pub fn f%s(t: &'x %s) -> &'x %s { ::core::borrow::Borrow::borrow(t) }" % (g, ty, inner), "pub fn f%s(t: &'x %s) -> &'a %s { ::core::borrow::Borrow::borrow(t) }" % (g, ty, inner)),
            ("Into", "pub fn f%s(t: %s, _x: &'x ()) -> %s { t.into() }" % (g, ty, inner), "pub fn f%s(t: %s, _x: &'x ()) -> %s { t.into() }" % (g, ty, inner.replace("'a", "'static"))),
            ("into_inner", "pub fn f%s(t: %s, _x: &'x ()) -> %s { t.into_inner() }" % (g, ty, inner), "pub fn f%s(t: %s, _x: &'x ()) -> %s { t.into_inner() }" % (g, ty, inner.replace("'a", "'static"))),
        ]
        if item:
            progs += [
                ("IntoIterator(by ref):item-outlives-borrow", "pub fn f%s(t: &'x %s) -> Option<&'x %s> { t.into_iter().next() }" % (g, ty, item), "pub fn f%s(t: &'x %s) -> Option<&'a %s> { t.into_iter().next() }" % (g, ty, item)),
                ("IntoIterator(by ref):iterator-type", "pub fn f%s(t: &'x %s) -> <&'x %s as ::core::iter::IntoIterator>::IntoIter { t.into_iter() }" % (g, ty, inner),
                 "pub fn f%s(t: &'x %s) -> <&'a %s as ::core::iter::IntoIterator>::IntoIter { t.into_iter() }" % (g, ty, inner)),
                ("IntoIterator(by value):iterator-type", "pub fn f%s(t: %s, _x: &'x ()) -> <%s as ::core::iter::IntoIterator>::IntoIter { t.into_iter() }" % (g, ty, inner),
                 "pub fn f%s(t: %s, _x: &'x ()) -> <%s as ::core::iter::IntoIterator>::IntoIter { t.into_iter() }" % (g, ty, inner.replace("'a", "'static"))),
            ]
            if key in ("names", "slots"):
                deref = "(*n)" if key == "names" else "n.get()"
                progs.append(("IntoIterator(by ref):stored-reference-escapes-borrow",
                              "pub fn f<'a>(t: &%s) -> &'a str { let mut best: &'a str = \"\"; for n in t { if %s.len() >= best.len() { best = %s; } } best }" % (ty, deref, deref),
                              "pub fn f<'a>(t: &%s) -> &'static str { let mut best: &'static str = \"\"; for n in t { if %s.len() >= best.len() { best = %s; } } best }" % (ty, deref, deref)))
        for (what, good, bad) in progs:
            n += 1
            body = "use nutype::nutype;\n%s\n%s\n"
            cg = verdict.Case("g%03d" % n, body % (decl, good), "MUST_ACCEPT", "view-signature:%s:%s" % (key, what), note=key, group="c13")
            cb = verdict.Case("b%03d" % n, body % (decl, bad), "MUST_REJECT", "view-signature-overreach:%s:%s" % (key, what), control_of=cg.id, note=key, group="c13")
            cases += [cg, cb]
    vc = verdict.VerdictCrate("c13v-%s" % tier, cratebuild.ALL_FEATURES, extra_deps=FULL_DEPS, nshards=4)
    try:
        out, info = verdict.run_verdicts(vc, cases, log=log)
    except Inconclusive as e:
        res.inconclusive.append(str(e))
        return
    judged = 0
    for c in cases:
        if c.expect != "MUST_ACCEPT":
            continue
        og, ob = out[c.id], out["b" + c.id[1:]]
        res.evaluations += 2
        if ob["verdict"] == "accepted":
            res.inconclusive.append("negative twin of %s compiles: the program does not discriminate" % c.rule)
            continue
        judged += 1
        res.classes.add(c.rule)
        if og["verdict"] != "accepted":
            res.violations.append(verdict_witness(res, c, "rejected: %s" % json.dumps(og["errors"])[:500], "view-type-differs-from-inner:" + c.rule.split(":", 2)[2]))
    res.guard("view_signature_programs_judged", judged, 25)


def check_c13(tier, seed):
    def guards(res, reports):
        seen = set()
        for r in reports:
            for c in r["classes"]:
                seen.add((fam_of(r), c.split(":")[0]))
        for fam in ("int", "float", "string", "other"):
            for v in ("AsRef", "Deref", "Borrow", "Into", "Clone", "eq", "partial_cmp"):
                res.guard("%s[%s]" % (v, fam), 1 if (fam, v) in seen else 0, 1)
        for fam in ("int", "string", "other"):
            for v in ("cmp", "hash"):
                res.guard("%s[%s]" % (v, fam), 1 if (fam, v) in seen else 0, 1)
        res.guard("Display[any]", sum(1 for (f, c) in seen if c == "Display"), 3)
        res.guard("Borrow<str>[string]", 1 if ("string", "Borrow<str>") in seen else 0, 1)
        res.guard("IntoIterator[other]", 1 if ("other", "IntoIterator") in seen else 0, 1)
        res.guard("HashMap-lookup-by-borrowed", sum(1 for (f, c) in seen if c == "HashMap-lookup-by-borrowed"), 2)
        res.guard("pairs_equal_only_after_sanitisation", sum_guard(reports, "pairs_equal_only_after_sanitisation"), 50)
        view_signature_verdicts(res, tier)
        res.guard("unchecked_values_viewed", sum_guard(reports, "unchecked_values_viewed"), 1000)
        res.guard("unchecked_pairs_compared", sum_guard(reports, "unchecked_pairs_compared"), 1000)
    return ctor_flow("C13", tier, seed,
                     "every declaration of the ctor corpus derives all admissible view and comparison traits; for every obtainable value: AsRef/Deref/Borrow(+Borrow<str>)/"
                     "Into/Clone/Copy/iteration expose the stored value, Display equals the inner Display under 7 format specs, HashMap/BTreeMap lookup through the borrowed "
                     "form finds the key; for pairs (equal, adjacent in the sorted domain, equal only after sanitisation, extremes, random) ==, !=, partial_cmp, <,<=,>,>=, "
                     "cmp and hash equal the inner value's (hash also equals hash of the borrowed str); declarations with the new_unchecked flag: the same views and ==/partial_cmp/hash "
                     "comparisons on values stored through `unsafe { new_unchecked }` from the whole raw domain (valid or not, NaN included; Ord::cmp excluded). A case is a (declaration, view or comparison outcome class) pair.", guards)


def check_c16(tier, seed):
    def guards(res, reports):
        cells = set()
        for r in reports:
            for c in r["classes"]:
                cells.add((fam_of(r), c.split(":")[0]))
        for fam in ("int", "float"):
            for k in ("GreaterViolated", "GreaterOrEqualViolated", "LessViolated", "LessOrEqualViolated"):
                res.guard("relation_parsed[%s,%s]" % (fam, k), 1 if (fam, k) in cells else 0, 1)
        for k in ("LenCharMinViolated", "LenCharMaxViolated"):
            res.guard("relation_parsed[string,%s]" % k, 1 if ("string", k) in cells else 0, 1)
        res.guard("fromstr_embeds", sum_guard(reports, "fromstr_embeds"), 10)
        res.guard("serde_embeds", sum_guard(reports, "serde_embeds"), 10)
    return ctor_flow("C16", tier, seed,
                     "message corpus: one single-validator declaration per (family x bound kind x bound value of both signs and several magnitudes x literal|const spelling); "
                     "the Display text of the error obtained just outside the bound must name the type and the bound ({:#?} rendering) and contain exactly one relation phrase "
                     "from a closed dictionary; that relation is evaluated at bound-1/bound/bound+1 (ints, char counts) or next_down/bound/next_up (floats) and compared with "
                     "try_new at those points; FromStr errors and serde errors (JSON, RON, MessagePack) of declarations deriving them must embed the text verbatim. A case is a (declaration, variant:relation) pair.", guards,
                     ["a message without a recognisable relation phrase is INCONCLUSIVE, not a violation"])


def unsafe_door_verdicts(res, tier):
    """C12's "through any safe entry point": for finite float newtypes deriving Eq/Ord the only door for NaN is `new_unchecked`, which must
    stay `unsafe` (and absent without the flag) under every flag combination; each attack has a twin that differs only by the `unsafe` block."""
    cases = []
    n = 0
    for ty in ("f32", "f64"):
        for cf in (False, True):
            for extra in ("", ", greater_or_equal = -1.5", ", less = 64.0"):
                for flag in (True, False):
                    n += 1
                    attrs = "%svalidate(finite%s), derive(Debug, Clone, Copy, PartialEq, Eq, PartialOrd, Ord)%s" % ("const_fn, " if cf else "", extra, ", new_unchecked" if flag else "")
                    decl = "use nutype::nutype;\n#[nutype(%s)]\npub struct T(%s);\n" % (attrs, ty)
                    if flag:
                        bad = decl + "pub fn f() -> T { T::new_unchecked(%s::NAN) }\n" % ty
                        good = decl + "pub fn f() -> T { unsafe { T::new_unchecked(%s::NAN) } }\n" % ty
                        rule = "new_unchecked-callable-without-unsafe"
                    else:
                        bad = decl + "pub fn f() -> T { unsafe { T::new_unchecked(%s::NAN) } }\n" % ty
                        good = decl + "pub fn f() -> Option<T> { T::try_new(%s::NAN).ok() }\n" % ty
                        rule = "new_unchecked-exists-without-flag"
                    cb = verdict.Case("b%03d" % n, bad, "MUST_REJECT", "unsafe-door:%s:%s%s" % (rule, ty, ":const_fn" if cf else ""), note=attrs, group="c12")
                    cg = verdict.Case("g%03d" % n, good, "MUST_ACCEPT", "unsafe-door-control:%s:%s%s" % (rule, ty, ":const_fn" if cf else ""), control_of=cb.id, note=attrs, group="c12")
                    cases += [cb, cg]
    vc = verdict.VerdictCrate("c12v-%s" % tier, cratebuild.ALL_FEATURES, extra_deps=FULL_DEPS, nshards=4)
    try:
        out, info = verdict.run_verdicts(vc, cases, log=log)
    except Inconclusive as e:
        res.inconclusive.append(str(e))
        return
    judged = 0
    for c in cases:
        if c.expect != "MUST_REJECT":
            continue
        ob, og = out[c.id], out["g" + c.id[1:]]
        res.evaluations += 2
        if og["verdict"] != "accepted":
            res.inconclusive.append("control of %s does not compile: %s" % (c.rule, json.dumps(og["errors"])[:300]))
            continue
        judged += 1
        res.classes.add(c.rule)
        if ob["verdict"] == "accepted":
            res.violations.append(verdict_witness(res, c, "compiles: safe code builds T(NaN)", "non-finite-obtainable-in-safe-code:" + c.rule.split(":")[1]))
    res.guard("unsafe_door_programs_judged", judged, 20)


def check_c12(tier, seed):
    def guards(res, reports):
        unsafe_door_verdicts(res, tier)
        for k in ("nonfinite_offered:ctor", "nonfinite_offered:TryFrom", "nonfinite_offered:FromStr", "nonfinite_offered:Deserialize", "nonfinite_offered:Arbitrary"):
            res.guard(k, sum_guard(reports, k), 1)
        res.guard("triples", sum_guard(reports, "triples"), 100000)
        res.guard("declarations_with_order_axioms", sum(1 for r in reports if "order-axioms-on-special-set" in r["classes"]), 4)
        entry = {}
        for r in reports:
            for k in ("try_new", "TryFrom", "FromStr", "Default", "Deserialize", "Arbitrary"):
                entry[k] = entry.get(k, 0) + r["hist"].get(k, 0)
        res.extra.setdefault("coverage_extra", {})["entry_points_values_asserted_finite"] = entry
        for k, v in entry.items():
            res.guard("values_observed[%s]" % k, v, 1)
    return ctor_flow("C12", tier, seed,
                     "f32/f64 declarations with `finite` (+ optional bounds, sanitizer, predicate) deriving PartialEq, Eq, PartialOrd, Ord and every entry-point trait; "
                     "(1) every value leaving try_new / TryFrom / FromStr / Default is asserted finite (NaN payloads, +-inf, 1e400 offered; thorough: all 2^32 f32 patterns); "
                     "(2) on all pairs and triples of up to 96 obtainable special/sampled values: == reflexive, cmp never panics, cmp == partial_cmp == inner partial_cmp, "
                     "antisymmetry, transitivity, Equal <=> ==, sort is a non-decreasing permutation, BTreeSet finds every inserted value. Deserialize and Arbitrary entry "
                     "points are asserted by the serde/arb binaries (see coverage.entry_points). A case is a (declaration, obtainability|order-axioms|sort|btreeset) pair.", guards)


def check_c04(tier, seed):
    def guards(res, reports):
        tot = {}
        for r in reports:
            for k, v in r["guards"].items():
                tot[k] = tot.get(k, 0) + v
        for f in ("Json", "Ron", "MsgPack"):
            for p in ("Bare", "VecElem", "OptionSome", "StructField", "MapValue", "MapKey"):
                for o in ("accepted", "rejected-by-inner-type", "rejected-by-validator", "changed-by-sanitizer"):
                    res.guard("%s/%s:%s" % (f, p, o), tot.get("%s/%s:%s" % (f, p, o), 0), 1)
        res.guard("probed", tot.get("probed", 0), 10)
    return ctor_flow("C04", tier, seed,
                     "serde corpus (all 12 integer types, f32/f64, String, Vec/Point/Cow/generic; with/without validators, sanitizers, custom errors); documents in JSON, RON and "
                     "MessagePack: encodings (produced by serde from the inner type) of boundary/valid/invalid values in 6 positions (bare, Vec element, Option, struct field, map "
                     "value, map key), ~60 wrongly-typed / out-of-range / non-finite / escaped documents per format, and byte-level mutations (truncate at every byte, 3 bit flips per "
                     "byte, duplicated byte). Oracle: a serde-derived `#[serde(rename=T)] struct RefT(Inner)` parsed from the same bytes, then try_new on every carried value; "
                     "plus a probing Deserializer (entry point must be deserialize_newtype_struct(T); visit_u64 must not yield a value). A case is a (declaration, format/position, "
                     "accepted|rejected-by-inner-type|rejected-by-validator|changed-by-sanitizer) triple.", guards)


def fromstr_scope_verdicts(res, tier):
    """C06 quantifies over every declaration deriving FromStr, wherever it is written: the generated impl must compile in modules that define
    names the prelude also has (same `scope:*` programs as C08 / C10; integer, float and generic declarations)."""
    vb = corpus_verdict.VB()
    corpus_verdict.names(vb, cratebuild.ALL_FEATURES, "c06")
    cases = [c for c in vb.cases if c.rule.startswith("scope:") and c.expect == "MUST_ACCEPT" and "FromStr" in c.body and not c.rule.endswith(":string")]
    vc = verdict.VerdictCrate("c06v-%s" % tier, cratebuild.ALL_FEATURES, extra_deps=FULL_DEPS, nshards=4)
    try:
        out, info = verdict.run_verdicts(vc, cases, log=log)
    except Inconclusive as e:
        res.inconclusive.append(str(e))
        return
    n = 0
    for c in cases:
        o = out[c.id]
        res.evaluations += 1
        n += 1
        if o["verdict"] == "accepted":
            res.classes.add("scope|" + c.rule.split(":")[1])
        else:
            res.violations.append(verdict_witness(res, c, "rejected: %s" % json.dumps(o["errors"])[:500], "fromstr-impl-does-not-compile-in-scope:" + c.rule.split(":")[1]))
    res.guard("fromstr_declarations_compiled_in_shadowing_scopes", n, 50)


def serde_scope_verdicts(res, tier):
    """C10 quantifies over every declaration deriving Serialize + Deserialize - wherever it is written. The declaring module may define names
    the prelude also has (`type Result<T> = ..` is idiomatic); the generated impls must still compile there. Cases are the `scope:*`
    MUST_ACCEPT programs of the verdict corpus (triaged on the pinned tree), all of which derive both traits."""
    vb = corpus_verdict.VB()
    corpus_verdict.names(vb, cratebuild.ALL_FEATURES, "c10")
    cases = [c for c in vb.cases if c.rule.startswith("scope:") and c.expect == "MUST_ACCEPT" and "Deserialize" in c.body]
    vc = verdict.VerdictCrate("c10v-%s" % tier, cratebuild.ALL_FEATURES, extra_deps=FULL_DEPS, nshards=4)
    try:
        out, info = verdict.run_verdicts(vc, cases, log=log)
    except Inconclusive as e:
        res.inconclusive.append(str(e))
        return
    ok = 0
    for c in cases:
        o = out[c.id]
        res.evaluations += 1
        if o["verdict"] == "accepted":
            ok += 1
            res.classes.add("scope|" + c.rule.split(":")[1])
        else:
            res.violations.append(verdict_witness(res, c, "rejected: %s" % json.dumps(o["errors"])[:500], "serde-impls-do-not-compile-in-scope:" + c.rule.split(":")[1]))
    res.guard("serde_declarations_compiled_in_shadowing_scopes", ok + len(res.violations), 80)


def check_c10(tier, seed):
    def guards(res, reports):
        serde_scope_verdicts(res, tier)
        # the harness deserializes into an owned value from a short-lived buffer (`T: DeserializeOwned`, which serde gives every
        # newtype whose inner type is owned or `Cow`): a declaration that builds on its own but whose impl is tied to the input
        # lifetime cannot round-trip at all
        for did, q in list(res.quarantined.items()):
            for e in q["errors"]:
                msg = e.get("message", "") + e.get("rendered", "")
                if "implementation of `Deserialize` is not general enough" in msg or ("DeserializeOwned" in msg and "is not satisfied" in msg):
                    v = {"decl": did, "signature": "deserialize-impl-not-usable-for-owned-values(compile)", "input": "<compile>", "observed": e.get("message", "")[:200],
                         "expected": "T: for<'de> Deserialize<'de> as for a serde-derived newtype over the same inner type", "detail": q["decl"], "count": 1}
                    v["replay"] = write_witness(res, v, None, q["decl"], kind="compile")
                    res.violations.append(v)
                    break
        tot = {}
        for r in reports:
            for k, v in r["guards"].items():
                tot[k] = tot.get(k, 0) + v
        for f in ("Json", "Ron", "MsgPack"):
            res.guard("%s:roundtrip-checked" % f, tot.get("%s:roundtrip-checked" % f, 0), 100)
        res.guard("Json:inner-does-not-roundtrip(skipped)", tot.get("Json:inner-does-not-roundtrip(skipped)", 0), 1)
        for k in ("negative_zero", "subnormal_or_tiny", "non_ascii_string", "escaped_string", "nonfinite_value"):
            res.guard(k, tot.get(k, 0), 1)
    return ctor_flow("C10", tier, seed,
                     "serde corpus declarations with built-in or idempotent sanitizers; for every obtainable value of the document domain: (1) recording Serializer trace must be "
                     "[newtype_struct(T)] ++ trace(inner); (2) JSON and MessagePack bytes identical to the inner value's encoding, all three formats identical to a serde-derived "
                     "newtype; (3) if the inner value round-trips in the format (precondition, counted) then from(to(v)) == v bitwise. A case is a (declaration, trace|format:roundtrip|"
                     "format:precondition-skip) pair.", guards)


def check_c09(tier, seed):
    def guards(res, reports):
        fams = {}
        for r in reports:
            f = fams.setdefault(fam_of(r), {"ok": 0, "err": 0})
            f["ok"] += r["hist"].get("ok", 0)
            f["err"] += r["hist"].get("arbitrary::Error", 0)
        for fam in ("int", "float", "string", "other"):
            res.guard("ok[%s]" % fam, fams.get(fam, {}).get("ok", 0), 1)
        res.guard("result_equals_inclusive_bound", sum_guard(reports, "result_equals_inclusive_bound"), 1)
        res.guard("declarations_with_several_values", sum(1 for r in reports if "ok:several-values" in r["classes"]), 50)
    return ctor_flow("C09", tier, seed,
                     "arbitrary corpus: integers (12 types x range sizes 1,2,255,256,257,65536 anchored at MIN/0/MAX x bound-kind combinations x literal/const/MIN-MAX spellings, "
                     "expression bounds with <<, |, &, ^, +, -, *, as, if, fn calls, negated constants; sanitizer without validation), floats (one- and two-sided x inclusive/exclusive "
                     "x with/without finite x magnitudes 1e-30..1e300, mixed sign, equal inclusive bounds, few-ulp ranges), strings (len_char_min/len_char_max/not_empty in every "
                     "order x trim/lowercase/uppercase orders), other types; only declarations whose valid set is non-empty. Inputs: [], all 1- and 2-byte strings, boundary patterns of "
                     "every length <= 64, encodings of special floats and case-expanding/whitespace code points (also truncated at every byte), seeded random inputs <= 128 bytes; "
                     "thorough: all 2^32 4-byte inputs for 8 f32 generators. Oracle: reference model on the produced value (valid and a sanitisation fixed point); panics are "
                     "violations; a call that makes no progress for 10 s is re-run alone and only a reproduced stall is a violation. A case is a (declaration, ok:several-values|"
                     "ok:single-value|arbitrary::Error) pair.", guards)


def check_c14(tier, seed):
    def guards(res, reports):
        sizes = set()
        for r in reports:
            for c in r["classes"]:
                if c.startswith("range-size-"):
                    sizes.add(int(c.split("-")[-1]))
        for n in (1, 2, 256, 257, 65536):
            res.guard("range_size_%d" % n, 1 if n in sizes else 0, 1)
        res.guard("declarations", len(reports), 60)
        res.extra["exhaustive_overall"] = True
    return ctor_flow("C14", tier, seed,
                     "integer declarations of the arbitrary corpus whose valid range has <= 2^16 elements (all 12 types; literal and expression bounds incl. shifts, |, &, ^, "
                     "arithmetic, bounds at MIN/MAX); the generator consumes <= 2 bytes for such ranges, so [] and all 1- and 2-byte inputs exhaust its behaviour; produced set must "
                     "equal the valid set (computed from Python-denoted bounds, cross-checked through try_new). A case is a (declaration, range-size-N) pair; exhaustive per declaration.",
                     guards)


FULL_DEPS = 'serde = { version = "1.0.150", features = ["derive"] }\narbitrary = { version = "1.3.0", features = ["derive"] }\nregex = "1"\n'


def verdict_witness(res, case, obs, signature):
    v = {"decl": case.id, "signature": signature, "input": case.rule, "observed": obs, "expected": case.expect, "detail": case.note}
    v["replay"] = write_witness(res, v, module_text="pub mod %s {\n%s\n}\n" % (case.id, case.body), decl_src=case.body, kind="compile", features=case.group)
    return v


def rule_class(rule):
    """cause class of a verdict violation: the rule / matrix cell family (stable across corpus growth)"""
    parts = rule.split(":")
    if parts[0] == "matrix":
        return "matrix:%s:%s:%s" % (parts[1], parts[2], parts[3])
    if parts[0] in ("names", "generic"):
        return ":".join(parts[:3])
    if parts[0] == "R7":
        return ":".join(parts[:2] + parts[3:4])
    if parts[0] == "random":
        return rule[:80]
    return ":".join(parts[:2])


def check_c08(tier, seed):
    res = Result("C08", tier, seed)
    res.rule = ("verdict corpus x 2 crate-feature sets (all features; std only): admissibility matrix (22 traits x 4 families x {no validation, standard, standard+finite, custom}), one "
                "declaration per rejection rule of the statement (visible field, foreign attributes, #[derive], unknown/mis-cased/wrong-family items, duplicates, repeated blocks, "
                "lowercase+uppercase, literal bounds in every relative position incl. equal, with/error combinations, From rules, float Eq/Ord rules, Default, regex, feature gates, "
                "input shapes) with nearest well-formed neighbours, hostile type / type-parameter names, generic newtypes with bounds x each derive, attribute layouts, seeded random "
                "declarations; each paired with an independent reference predicate written from the README (MUST_ACCEPT / MUST_REJECT / UNSPECIFIED). Observed verdict: rejected iff "
                "rustc reports >= 1 error attributed to the declaration by span; accepted iff member of a clean build. Plus a crate of expression-valued contradictory bounds / "
                "invalid defaults whose generated unit tests must fail exactly when contradictory (cargo test). A case is one declaration; non-trivial = its observed verdict was "
                "compared with a MUST_ACCEPT or MUST_REJECT expectation.")
    # (schemars08 alone: serde / arbitrary items must still be refused)
    # (schemars08 alone: serde / arbitrary items must still be refused; single-feature sets: every feature-gated item must be
    # refused exactly when its own feature is off; nodefault: the crate's `std` feature off, everything else on)
    groups = [("all", cratebuild.ALL_FEATURES, FULL_DEPS, True), ("f0", ["std"], "", True), ("schemars08", ["std", "schemars08"], FULL_DEPS, True)]
    for f in ("serde", "arbitrary", "regex", "new_unchecked"):
        groups.append((f, ["std", f], FULL_DEPS, True))
    groups.append(("nodefault", ["serde", "arbitrary", "regex", "new_unchecked"], FULL_DEPS, False))
    for gname, feats, deps, dflt in groups:
        cases = corpus_verdict.build(tier, seed, feats + (["std"] if not dflt else []), gname)
        vc = verdict.VerdictCrate("c08-%s-%s" % (gname, tier), feats, extra_deps=deps, default_features=dflt)
        try:
            out, info = verdict.run_verdicts(vc, cases, log=log)
        except Inconclusive as e:
            res.inconclusive.append(str(e))
            continue
        log("C08 %s: %d cases in %d rounds, %.1fs" % (gname, len(cases), info["rounds"], info["wall_s"]))
        res.declarations += len(cases)
        for c in cases:
            o = out.get(c.id)
            if o is None:
                res.inconclusive.append("no verdict for %s" % c.id)
                continue
            res.evaluations += 1
            key = "%s/%s->%s" % (gname, c.expect, o["verdict"])
            res.hist[key] = res.hist.get(key, 0) + 1
            if c.expect != "UNSPECIFIED":
                res.classes.add("%s|%s" % (gname, c.id))
                res.extra.setdefault("rules_seen", set()).add(rule_class(c.rule))
            if c.expect == "MUST_REJECT" and o["verdict"] == "accepted":
                res.violations.append(verdict_witness(res, c, "accepted (compiles cleanly)", "must-reject-accepted:" + rule_class(c.rule)))
            elif c.expect == "MUST_ACCEPT" and o["verdict"] == "rejected":
                codes = ",".join(sorted(set(str(e["code"]) for e in o["errors"])))
                res.violations.append(verdict_witness(res, c, "rejected: %s" % json.dumps(o["errors"])[:600], "must-accept-rejected:" + rule_class(c.rule)))
            if len(res.samples) < 10 and res.evaluations % 97 == 0:
                res.samples.append({"group": gname, "declaration": c.body, "expected": c.expect, "observed": o["verdict"], "errors": o["errors"][:1]})
    # ---- the same rules when the declaring crate is built as a *dependency* of another crate (cargo does not set CARGO_PRIMARY_PACKAGE for it, caps lints ...):
    #      every rejection rule with its neighbours, all features
    dep_cases = [c for c in corpus_verdict.build(tier, seed, cratebuild.ALL_FEATURES, "asdep") if c.rule.split(":")[0] in ("R1", "R2", "R3", "R4", "R5", "R6", "R7", "R8", "R9", "R10", "R11", "R12", "R13", "R14")
                 and c.expect != "UNSPECIFIED"]
    vcd = verdict.VerdictCrate("c08-asdep-%s" % tier, cratebuild.ALL_FEATURES, extra_deps=FULL_DEPS, as_dependency=True)
    try:
        outd, infod = verdict.run_verdicts(vcd, dep_cases, log=log)
        nd = 0
        for c in dep_cases:
            o = outd.get(c.id)
            if o is None:
                continue
            nd += 1
            res.evaluations += 1
            if c.expect == "MUST_REJECT" and o["verdict"] == "accepted":
                res.violations.append(verdict_witness(res, c, "accepted when built as a dependency", "as-dependency:must-reject-accepted:" + rule_class(c.rule)))
            elif c.expect == "MUST_ACCEPT" and o["verdict"] == "rejected":
                res.violations.append(verdict_witness(res, c, "rejected when built as a dependency: %s" % json.dumps(o["errors"])[:500], "as-dependency:must-accept-rejected:" + rule_class(c.rule)))
        res.guard("rule_cases_built_as_dependency", nd, 300)
    except Inconclusive as e:
        res.inconclusive.append("as-dependency build: " + str(e))
    # ---- generated unit tests
    gt = corpus_verdict.generated_tests_cases()
    gdir = os.path.join(WORK, "c08-gentests")
    write_if_changed(os.path.join(gdir, "src", "lib.rs"), "#![allow(dead_code, unused_imports)]\n" + "\n".join(t[0] for t in gt))
    write_if_changed(os.path.join(gdir, "Cargo.toml"), '[package]\nname = "gentests"\nversion = "0.1.0"\nedition = "2021"\n\n[dependencies]\nnutype = { path = "%s/nutype" }\n\n[workspace]\n\n[profile.dev]\ndebug = 0\n' % REPO)
    if not os.path.exists(os.path.join(gdir, "Cargo.lock")):
        import shutil
        shutil.copy(os.path.join(REPO, "Cargo.lock"), os.path.join(gdir, "Cargo.lock"))
    env = dict(ENV); env["CARGO_TARGET_DIR"] = os.path.join(WORK, "target")
    # the planted tests must at least compile in the user's test build: attribute test-build errors to cases by span
    gt_alive = list(gt)
    for _round in range(4):
        lines_of = []
        line = 2
        for t in gt_alive:
            nl = t[0].count("\n") + 1
            lines_of.append((line, line + nl - 1, t))
            line += nl
        write_if_changed(os.path.join(gdir, "src", "lib.rs"), "#![allow(dead_code, unused_imports)]\n" + "\n".join(t[0] for t in gt_alive))
        rc_b, diags, err_b, _ = cratebuild.cargo_json(["cargo", "test", "--offline", "--lib", "--no-run", "--message-format=json", "-q"], gdir, os.path.join(WORK, "target"))
        if rc_b == 0:
            break
        bad_cases = []
        for dg in diags:
            for sp in dg["spans"]:
                if sp["file_name"].endswith("src/lib.rs"):
                    for (a, bb, t) in lines_of:
                        if a <= sp["line_start"] <= bb and t not in bad_cases:
                            bad_cases.append((t, dg))
                    break
        if not bad_cases:
            res.inconclusive.append("generated-tests crate does not build and no case can be blamed: %s" % err_b[-500:])
            break
        for (t, dg) in bad_cases:
            if t in gt_alive:
                gt_alive.remove(t)
                v = {"decl": t[1], "signature": "generated-test-does-not-compile:" + t[2], "input": t[0], "observed": "test build fails: %s" % dg["message"][:200],
                     "expected": "a well-formed declaration keeps the user's `cargo test` build working", "detail": ""}
                v["replay"] = write_witness(res, v, module_text=t[0], decl_src=t[0], kind="generated-test")
                res.violations.append(v)
    gt = gt_alive
    rc, out_t, err_t, dt = run(["cargo", "test", "--offline", "--lib", "--", "--test-threads", "8"], cwd=gdir, env=env, timeout=1200)
    results = {}
    for line in out_t.splitlines():
        line = line.strip()
        if line.startswith("test ") and (line.endswith("... ok") or line.endswith("... FAILED")):
            name = line[5:].rsplit(" ... ", 1)[0]
            results[name] = line.endswith("ok")
    if not results:
        res.inconclusive.append("generated-tests crate produced no test results: rc=%d %s" % (rc, err_t[-600:]))
    n_fail_expected = 0
    for i, (text, tname, test, must_fail) in enumerate(gt):
        full = "%s::__nutype_%s__::tests::%s" % (text.split()[2], tname, test)
        res.evaluations += 1
        if full not in results:
            res.violations.append({"decl": tname, "signature": "generated-test-missing:" + test, "input": text, "observed": "no such test in the user's crate",
                                   "expected": "test exists and %s" % ("fails" if must_fail else "passes"), "detail": "", "replay": "-"})
            res.violations[-1]["replay"] = write_witness(res, res.violations[-1], module_text=text, decl_src=text, kind="generated-test")
            continue
        passed = results[full]
        res.classes.add("gentest|%s|%s" % (tname, "fails" if not passed else "passes"))
        res.hist["gentest:%s" % ("pass" if passed else "fail")] = res.hist.get("gentest:%s" % ("pass" if passed else "fail"), 0) + 1
        if must_fail:
            n_fail_expected += 1
        if passed == must_fail:
            v = {"decl": tname, "signature": "generated-test-wrong-outcome:%s:%s" % (test, "passes-on-contradiction" if must_fail else "fails-on-consistent"), "input": text,
                 "observed": "test %s" % ("passed" if passed else "FAILED"), "expected": "test %s" % ("fails" if must_fail else "passes"), "detail": ""}
            v["replay"] = write_witness(res, v, module_text=text, decl_src=text, kind="generated-test")
            res.violations.append(v)
    # the same planted tests as the user's `cargo test --release` (debug assertions off) would run them: they must still fail on contradictions
    gdir2 = os.path.join(WORK, "c08-gentests-nodebug")
    write_if_changed(os.path.join(gdir2, "src", "lib.rs"), "#![allow(dead_code, unused_imports)]\n" + "\n".join(t[0] for t in gt))
    write_if_changed(os.path.join(gdir2, "Cargo.toml"), '[package]\nname = "gentests_nodebug"\nversion = "0.1.0"\nedition = "2021"\n\n[dependencies]\nnutype = { path = "%s/nutype" }\n\n[workspace]\n\n'
                     '[profile.dev]\ndebug = 0\ndebug-assertions = false\n\n[profile.test]\ndebug = 0\ndebug-assertions = false\n' % REPO)
    if not os.path.exists(os.path.join(gdir2, "Cargo.lock")):
        import shutil
        shutil.copy(os.path.join(REPO, "Cargo.lock"), os.path.join(gdir2, "Cargo.lock"))
    rc2, out_t2, err_t2, _ = run(["cargo", "test", "--offline", "--lib", "--", "--test-threads", "8"], cwd=gdir2, env=env, timeout=1200)
    results2 = {}
    for line in out_t2.splitlines():
        line = line.strip()
        if line.startswith("test ") and (line.endswith("... ok") or line.endswith("... FAILED")):
            results2[line[5:].rsplit(" ... ", 1)[0]] = line.endswith("ok")
    if not results2:
        res.inconclusive.append("generated-tests crate (debug assertions off) produced no test results: rc=%d %s" % (rc2, err_t2[-600:]))
    n2 = 0
    for (text, tname, test, must_fail) in gt:
        full = "%s::__nutype_%s__::tests::%s" % (text.split()[2], tname, test)
        if full not in results2:
            continue
        n2 += 1
        res.evaluations += 1
        if results2[full] == must_fail:
            v = {"decl": tname, "signature": "debug-assertions-off:generated-test-wrong-outcome:%s:%s" % (test, "passes-on-contradiction" if must_fail else "fails-on-consistent"), "input": text,
                 "observed": "test %s with debug assertions off" % ("passed" if results2[full] else "FAILED"), "expected": "test %s" % ("fails" if must_fail else "passes"), "detail": ""}
            v["replay"] = write_witness(res, v, module_text=text, decl_src=text, kind="generated-test")
            res.violations.append(v)
    res.guard("generated_tests_run_with_debug_assertions_off", n2, 50)
    res.samples.append({"generated_test_example": gt[1][0], "expected": "test fails" if gt[1][3] else "test passes"})
    # guards
    seen = res.extra.pop("rules_seen", set())
    for r in ("R1", "R2", "R3", "R4", "R5", "R6", "R7", "R8", "R9", "R10", "R11", "R12", "R13", "R14"):
        res.guard("rule_cases[%s]" % r, sum(1 for x in seen if x.split(":")[0] == r), 1)
    res.guard("matrix_cells", sum(1 for x in seen if x.startswith("matrix:")), 200)
    res.guard("must_accept_compiled", sum(v for k, v in res.hist.items() if "MUST_ACCEPT->accepted" in k), 400)
    res.guard("must_reject_rejected", sum(v for k, v in res.hist.items() if "MUST_REJECT->rejected" in k), 300)
    res.guard("generated_tests_expected_to_fail", n_fail_expected, 20)
    res.assumptions += ["reference predicate: README tables and prose (UNSPECIFIED where they are silent or contradict each other: float Hash, adjacent exclusive integer bounds, "
                        "const_fn on String, Arbitrary with predicate/custom sanitizer, default without derive(Default), duplicate traits, two-field tuple structs)",
                        "rustc 1.95; error codes are recorded but not part of the verdict"]
    return finish(res)


def audit_corpus(tier, seed):
    """(modules, expects): C05 victims plus a slice of the runtime corpora, as plain declarations"""
    modules, expects = [], {}
    n = 0
    for v in corpus_c05.victims(tier):
        for vis in ("pub", "pub(crate)", ""):
            n += 1
            tn = "Aud%03d" % n
            text = v.text(vis).replace("struct T", "struct " + tn).replace("T::", tn + "::").replace("= T<", "= %s<" % tn).replace("= T;", "= %s;" % tn)
            modules.append(("m%03d" % n, text))
            expects[tn] = {"vis": vis, "has_validation": v.has_validation, "new_unchecked": v.new_unchecked}
    decls = [d for d in ctor_decls(tier, seed) if not d.unspecified and not d.id.startswith("r") and "nvrt::" not in d.decl_text() and not any("nvrt::" in s for s in d.support)]
    step = max(1, len(decls) // (160 if tier == "quick" else 600))
    for d in decls[::step]:
        n += 1
        sup = "\n".join(s for s in d.support if not s.startswith("fn o_"))
        modules.append(("m%03d" % n, "use nutype::nutype;\n%s\n%s" % (sup, d.decl_text())))
        expects[d.type_name] = {"vis": d.vis, "has_validation": d.has_validation, "new_unchecked": d.new_unchecked}
    return modules, expects


def regex_without_unicode_probe(res):
    """The application, not the macro, decides how its `regex` crate is built. With `regex` built without Unicode support a literal such as `^\\w+$`
    (validated at expansion time by the macro's own, fully featured `regex`) cannot be compiled at run time. Whatever the generated code does then -
    the pinned tree panics on first use - it must never hand out a value that does not match: a guard that cannot run must fail closed.
    A stand-alone program (no harness crate in its graph: cargo would unify the `regex` features) prints one line per call."""
    d = os.path.join(WORK, "c05-regexlite")
    pats = [("W", "^\\\\w+$", ["abc", "a b", "", "é"]), ("D", "^\\\\d{2}$", ["12", "1a", "123"]), ("L", "^\\\\p{L}+$", ["ab", "a1"]), ("A", "^[a-c]+$", ["abc", "abd"])]
    expect = {"W": [True, False, False, True], "D": [True, False, False], "L": [True, False], "A": [True, False]}
    src = ["use nutype::nutype;"]
    for (n, p, _) in pats:
        src.append('#[nutype(validate(regex = "%s"), derive(Debug, TryFrom, FromStr))]\npub struct %s(String);' % (p, n))
    src.append("fn show<T, E>(tag: &str, i: usize, how: &str, r: std::thread::Result<Result<T, E>>) { println!(\"CASE {tag} {i} {how} {}\", match r { Ok(Ok(_)) => \"OK\", Ok(Err(_)) => \"ERR\", Err(_) => \"PANIC\" }); }")
    src.append("fn main() {\n    std::panic::set_hook(Box::new(|_| {}));")
    for (n, p, inputs) in pats:
        for i, x in enumerate(inputs):
            lit = json.dumps(x, ensure_ascii=False)
            src.append('    show("%s", %d, "try_new", std::panic::catch_unwind(|| %s::try_new(%s)));' % (n, i, n, lit))
            src.append('    show("%s", %d, "try_from", std::panic::catch_unwind(|| <%s as TryFrom<String>>::try_from(String::from(%s))));' % (n, i, n, lit))
            src.append('    show("%s", %d, "from_str", std::panic::catch_unwind(|| %s.parse::<%s>()));' % (n, i, lit, n))
    src.append("}")
    write_if_changed(os.path.join(d, "src", "main.rs"), "\n".join(src) + "\n")
    write_if_changed(os.path.join(d, "Cargo.toml"), '[package]\nname = "regexlite"\nversion = "0.1.0"\nedition = "2021"\n\n[dependencies]\nnutype = { path = "%s/nutype", features = ["regex"] }\n'
                     'regex = { version = "1", default-features = false, features = ["std"] }\n\n[workspace]\nresolver = "2"\n\n[profile.dev]\ndebug = 0\n' % REPO)
    if not os.path.exists(os.path.join(d, "Cargo.lock")):
        import shutil
        shutil.copy(os.path.join(REPO, "Cargo.lock"), os.path.join(d, "Cargo.lock"))
    env = dict(ENV); env["CARGO_TARGET_DIR"] = os.path.join(WORK, "target-regexlite")
    rc, out, err, dt = run(["cargo", "run", "--offline", "-q"], cwd=d, env=env, timeout=900)
    lines = [l.split() for l in out.splitlines() if l.startswith("CASE ")]
    if rc != 0 or not lines:
        res.inconclusive.append("regex-without-unicode probe did not run: rc=%s %s" % (rc, err[-600:]))
        return
    seen = {"OK": 0, "ERR": 0, "PANIC": 0}
    for (_, tag, i, how, verdict_) in lines:
        res.evaluations += 1
        seen[verdict_] += 1
        should_match = expect[tag][int(i)]
        pat = next(p for (n, p, _) in pats if n == tag)
        if verdict_ == "OK" and not should_match:
            v = {"decl": "regexlite:" + tag, "signature": "regex-guard-fails-open-without-unicode-support:%s" % how, "input": next(x for (n, p, xs) in pats if n == tag for j, x in enumerate(xs) if j == int(i)),
                 "observed": "Ok(value that does not match %s)" % pat.replace("\\\\", "\\"), "expected": "Err or panic", "detail": "application `regex` built with default-features = false", "count": 1}
            v["replay"] = write_witness(res, v, None, "\n".join(src), kind="program")
            res.violations.append(v)
        if verdict_ == "ERR" and should_match and tag == "A":
            res.inconclusive.append("regex-without-unicode probe: the ASCII control pattern rejects a matching value")
    res.hist.update({"regexlite:" + k: v for k, v in seen.items()})
    res.classes.add("regexlite|" + "/".join(k for k, v in seen.items() if v))
    res.guard("regex_without_unicode_calls", len(lines), 30)


def check_c05(tier, seed):
    res = Result("C05", tier, seed)
    res.rule = ("(1) attack catalogue: 11 victim declarations (int/float/String/Vec/generic; no derives, every view trait, every trait; with/without validators; new_unchecked flag on/off) "
                "x {pub, pub(crate)} x ~25-40 bypass attempts each (tuple/struct-literal construction, field read/write, destructuring, private __sanitize__/__validate__, hidden module "
                "path, new/From/Into/Default where they must not exist, new_unchecked without flag / without unsafe, assignment/reborrow/mem::swap/DerefMut through Deref, mutating "
                "Vec/String methods through auto-deref, as_mut, borrow_mut, `for x in &mut t`, into_iter on &mut) plus naming a private / pub(super) / pub(in path) newtype and its error "
                "types from outside; every attack must be rejected by rustc (>= 1 error attributed by span) AND its positive-control twin (same function, legitimate call) must compile. "
                "(2) expansion audit: nightly -Zunpretty=expanded of the victims and a slice of the runtime corpora parsed with syn into an event log; offline rules: private "
                "doc(hidden) module, private field, re-exports exactly T/TError/TParseError with the declared visibility, no mutable-view impls, no &mut self methods or &mut returns, "
                "direct constructions only in try_new (after __validate__), new (around __sanitize__), unsafe new_unchecked, Clone::clone; new_unchecked present iff flagged and unsafe; no "
                "unsafe blocks / transmute / undocumented pub fns. A case is one (attack, victim, visibility) triple or one audited expansion module.")
    cases = corpus_c05.build(tier, seed)
    cases_nf = corpus_c05.build_without_feature(tier, seed)
    vc = verdict.VerdictCrate("c05-%s" % tier, cratebuild.ALL_FEATURES, extra_deps=FULL_DEPS, nshards=16)
    vc_nf = verdict.VerdictCrate("c05nf-%s" % tier, ["std", "serde", "arbitrary", "regex", "schemars08"], extra_deps=FULL_DEPS, nshards=4)
    try:
        out, info = verdict.run_verdicts(vc, cases, log=log, max_rounds=10)
        out_nf, info_nf = verdict.run_verdicts(vc_nf, cases_nf, log=log, max_rounds=10)
    except Inconclusive as e:
        res.inconclusive.append(str(e))
        return finish(res)
    # the second crate's cases get their own id namespace
    for c in cases_nf:
        c.id = "n" + c.id
        if c.control_of:
            c.control_of = "n" + c.control_of
    out.update({"n" + k: v for k, v in out_nf.items()})
    res.guard("feature_off_cases", len(cases_nf) // 2, 15)
    cases = cases + cases_nf
    by_id = {c.id: c for c in cases}
    n_ok = 0
    codes = {}
    for c in cases:
        if c.expect != "MUST_REJECT":
            continue
        ctrl = by_id[c.id.replace("a", "c", 1)]
        oa, oc = out[c.id], out[ctrl.id]
        res.evaluations += 2
        if oc["verdict"] != "accepted":
            res.inconclusive.append("positive control %s (%s, %s) does not compile: %s" % (ctrl.id, c.rule, c.note, json.dumps(oc["errors"])[:300]))
            continue
        if oa["verdict"] == "accepted":
            res.violations.append(verdict_witness(res, c, "attack compiles", "bypass-compiles:" + c.rule.split(":", 1)[1].split(":")[0] + ":" + c.note.split("/")[0]))
            continue
        n_ok += 1
        res.classes.add("%s|%s" % (c.rule, c.note))
        for e in oa["errors"]:
            codes[str(e["code"])] = codes.get(str(e["code"]), 0) + 1
        if len(res.samples) < 8 and n_ok % 41 == 0:
            res.samples.append({"attack": c.rule, "victim": c.note, "program": c.body, "rustc": oa["errors"][:1], "control_compiles": True})
    res.hist.update({"attack-rejected:" + k: v for k, v in codes.items()})
    res.guard("attacks_rejected_with_compiling_control", n_ok, 300)
    # ---- expansion audit
    modules, expects = audit_corpus(tier, seed)
    mods, err = audit.expand_and_audit("c05-audit-%s" % tier, modules, expects, cratebuild.ALL_FEATURES, log=log)
    if err:
        res.inconclusive.append(err[:800])
        return finish(res)
    audited = 0
    for m in mods:
        tn = m["type_name"]
        if tn not in expects:
            continue
        viol, facts = audit.check_module(m, expects[tn])
        audited += 1
        res.evaluations += facts.get("fns", 0) + 1
        res.classes.add("audit|" + tn)
        for x in viol:
            if x["signature"] == "INCONCLUSIVE":
                res.inconclusive.append("%s: %s" % (tn, x["detail"]))
                continue
            v = {"decl": tn, "signature": x["signature"], "input": m["module"], "observed": x["detail"], "expected": "see rule", "detail": ""}
            text = dict(modules).get("m%03d" % 0, None)
            v["replay"] = write_witness(res, v, module_text=next((t for (mn, t) in modules if ("struct %s" % tn) in t), None), kind="expansion")
            res.violations.append(v)
        if audited == 3:
            res.samples.append({"audited_module": m["module"], "impls": [(im["trait"], [f["name"] for f in im["fns"]]) for im in m["impls"]][:8]})
    # the same audit on the expansion produced in a build with debug assertions off (macro crate and user crate alike): a guard that is only
    # emitted / only runs under `cfg(debug_assertions)` shows as a direct construction outside the whitelist there
    mods2, err2 = audit.expand_and_audit("c05-audit-nodebug-%s" % tier, modules, expects, cratebuild.ALL_FEATURES, log=log, debug_assertions=False)
    if err2:
        res.inconclusive.append("debug-assertions-off expansion: " + err2[:600])
    else:
        n2 = 0
        for m in mods2:
            tn = m["type_name"]
            if tn not in expects:
                continue
            viol, facts = audit.check_module(m, expects[tn])
            n2 += 1
            res.evaluations += facts.get("fns", 0) + 1
            for x in viol:
                if x["signature"] == "INCONCLUSIVE":
                    continue
                v = {"decl": tn, "signature": "debug-assertions-off:" + x["signature"], "input": m["module"], "observed": x["detail"], "expected": "see rule", "detail": ""}
                v["replay"] = write_witness(res, v, module_text=next((t for (mn, t) in modules if ("struct %s" % tn) in t), None), kind="expansion")
                res.violations.append(v)
        res.guard("expansion_modules_audited_with_debug_assertions_off", n2, min(len(expects), 150))
    regex_without_unicode_probe(res)
    res.guard("expansion_modules_audited", audited, min(len(expects), 150))
    res.guard("expansion_modules_expected", len(expects), 150)
    res.hist["expansion-modules-audited"] = audited
    res.declarations = audited
    res.assumptions += ["a catalogue is a sample of all client programs; interior mutability of a user-chosen inner type is outside the property",
                        "rustc diagnostics are attributed by primary span line; error codes are recorded, not required",
                        "nightly -Zunpretty=expanded output is parsed by syn 2.0.66; an unparsable module is INCONCLUSIVE"]
    return finish(res)


def check_c15(tier, seed):
    res = Result("C15", tier, seed)
    res.rule = ("a generated #![no_std] library crate (own workspace and target dir; nutype with default-features = false + serde + arbitrary; serde default-features = false) holding "
                "integer / float / other ([i32;3], user struct, alloc Vec, generic W<X: ..>) declarations x guard variants {none, sanitizer, bounds with const, finite, predicate, custom "
                "error, sanitizer+bounds} x every derivable trait singly (with prerequisites) and all together x {default, const_fn}; every declaration must be in the clean build "
                "(compile-verdict monitor); three deliberately std-using control declarations must be rejected, which shows `std` really is absent from the extern prelude. "
                "A case is one declaration; non-trivial = its verdict was compared with the expectation.")
    cases = corpus_nostd.build(tier, seed)
    deps = 'serde = { version = "1.0.150", default-features = false, features = ["derive", "alloc"] }\narbitrary = { version = "1.3.0" }\n'
    vc = verdict.VerdictCrate("c15-%s" % tier, ["serde", "arbitrary"], default_features=False, no_std=True, extra_deps=deps, nshards=8)
    try:
        out, info = verdict.run_verdicts(vc, cases, log=log)
    except Inconclusive as e:
        res.inconclusive.append(str(e))
        return finish(res)
    # the same crate compiled as the user's `cargo test` would (cfg(test): the unit tests the macro plants inside the hidden module are part of
    # the no_std crate too); only declarations that passed the plain build are judged again
    try:
        alive = [c for c in cases if c.expect == "MUST_ACCEPT" and out[c.id]["verdict"] == "accepted"]
        out_t, info_t = verdict.run_verdicts(vc, alive, log=log, extra_args=["--tests"])
    except Inconclusive as e:
        res.inconclusive.append("cfg(test) build: " + str(e))
        return finish(res)
    n_test_ok = 0
    for c in alive:
        o = out_t[c.id]
        res.evaluations += 1
        if o["verdict"] == "rejected":
            codes = ",".join(sorted(set(str(e["code"]) for e in o["errors"])))
            parts = c.rule.split(":")
            res.violations.append(verdict_witness(res, c, "rejected in the cfg(test) build: %s" % json.dumps(o["errors"])[:500], "not-no_std-clean-under-cfg(test):%s:%s" % (parts[1], codes)))
        else:
            n_test_ok += 1
    res.guard("declarations_clean_under_cfg_test", n_test_ok, 200)
    res.hist["cfg(test)-build:accepted"] = n_test_ok
    # a third crate that links neither `alloc` nor `std` anywhere in its graph (no `extern crate alloc`, no arbitrary, serde without its alloc
    # feature - the repository's own no_std example is of this kind): inherent methods that live in `alloc` (`str::to_ascii_lowercase`, `[T]::to_vec`..)
    # resolve in the first crate only because `alloc` happens to be loaded there
    bare = [c for c in cases if c.expect == "MUST_ACCEPT" and not any(w in c.body for w in ("alloc", "Arbitrary", "arbitrary", "Point"))]
    vcb = verdict.VerdictCrate("c15bare-%s" % tier, ["serde"], default_features=False, no_std=True, alloc=False,
                               extra_deps='serde = { version = "1.0.150", default-features = false, features = ["derive"] }\n', nshards=8)
    try:
        out_b, info_b = verdict.run_verdicts(vcb, bare, log=log)
    except Inconclusive as e:
        res.inconclusive.append("alloc-free build: " + str(e))
        return finish(res)
    n_bare_ok = 0
    for c in bare:
        o = out_b[c.id]
        res.evaluations += 1
        if o["verdict"] == "rejected":
            codes = ",".join(sorted(set(str(e["code"]) for e in o["errors"])))
            parts = c.rule.split(":")
            res.violations.append(verdict_witness(res, c, "rejected in the alloc-free build: %s" % json.dumps(o["errors"])[:500], "not-no_std-clean-without-alloc:%s:%s:%s" % (parts[1], parts[-1], codes)))
        else:
            n_bare_ok += 1
    res.guard("declarations_clean_without_alloc", n_bare_ok, 150)
    res.hist["alloc-free-build:accepted"] = n_bare_ok
    cells = set()
    controls_rejected = 0
    for c in cases:
        o = out[c.id]
        res.evaluations += 1
        res.classes.add(c.id)
        key = "%s->%s" % (c.expect, o["verdict"])
        res.hist[key] = res.hist.get(key, 0) + 1
        if c.expect == "MUST_REJECT":
            if o["verdict"] == "rejected":
                controls_rejected += 1
            else:
                res.inconclusive.append("std-using control %s compiles: the harness crate is not effectively no_std" % c.rule)
            continue
        parts = c.rule.split(":")
        cells.add((parts[1], parts[-1]) if parts[0] == "single" else (parts[0], parts[1]))
        if o["verdict"] == "rejected":
            codes = ",".join(sorted(set(str(e["code"]) for e in o["errors"])))
            fam = parts[1] if parts[0] in ("single", "all", "const_fn") else "generic"
            trait = parts[-1] if parts[0] in ("single", "generic") else parts[0]
            res.violations.append(verdict_witness(res, c, "rejected: %s" % json.dumps(o["errors"])[:500], "not-no_std-clean:%s:%s:%s" % (fam, trait, codes)))
        if len(res.samples) < 6 and res.evaluations % 71 == 0:
            res.samples.append({"declaration": c.body, "verdict": o["verdict"]})
    res.declarations = len(cases)
    res.guard("std_using_controls_rejected", controls_rejected, 3)
    for fam in ("int", "float", "other"):
        for t in ("FromStr", "Display", "Serialize", "Deserialize", "Arbitrary", "TryFrom", "Default", "Debug"):
            if fam == "other" and t in ("FromStr", "Display"):
                continue
            res.guard("cell[%s,%s]" % (fam, t), 1 if (fam, t) in cells else 0, 1)
    res.assumptions += ["host target only (no bare-metal target installed): name resolution of ::std paths and std-prelude names fails identically because a no_std crate has no `std` in its extern prelude",
                        "rustc >= 1.81 (ERROR_IN_CORE branch); the pre-1.81 branch cannot be exercised here"]
    return finish(res)


def check_c02(tier, seed):
    res = Result("C02", tier, seed)
    res.rule = ("spelling corpus: one declaration per (syntactic form x family x validator kind): integer bounds (~50 forms: literals with _, suffix, hex/bin/octal, negative, spaced minus, "
                "const, -K, (K), ((K)), {K}, K+1, 1+K, 30-K, 1<<4, K<<2, A|B, &, ^, *, /, %, !, T::MIN/MAX, T::MAX-1, fn calls, module paths, associated consts, casts, if/match/index/"
                "tuple-field/method-call expressions), float bounds (~36 forms), string length bounds, regex (literal, raw, raw-hash, escaped, static path, module path), with/"
                "predicate as closure / typed closure / mut closure / path / method path / turbofish path / bodies containing commas, pipes, nested closures, blocks; attribute layouts "
                "(all 24 block orders x trailing commas, repeated sanitize/validate/derive/default blocks with different contents). Every declaration the macro accepts is run through "
                "the C01 reference-model monitor with the bound value computed in Python (never the macro's parse), on inputs concentrated around the denoted bound, its negation, "
                "half/double and +-10; a declaration the macro rejects is fine for this property. A case is a (spelling class, accepted|rejected) pair, non-trivial when accepted "
                "declarations of the class were driven through both outcomes of the rule.")
    decls = corpus_spelling.build(tier, seed)
    out, by_id = runtime_check(res, "c02-%s" % tier, decls, ["C01"] + (["C03"] if True else []), max_quarantine_frac=1.1)
    if out is None:
        return finish(res)
    rejected = set(res.extra.get("coverage_extra", {}).get("unspecified_declarations_rejected", {}).keys())
    cls_of = {d.id: next(t[3:] for t in d.tags if t.startswith("sp=")) for d in decls}
    classes = {}
    for d in decls:
        c = classes.setdefault(cls_of[d.id], {"accepted": 0, "rejected": 0})
        c["rejected" if d.id in rejected else "accepted"] += 1
    reports = out["C01"] + out.get("C03", [])
    for r in reports:
        r["property"] = "C02"
    absorb_reports(res, reports, by_id)
    for v in res.violations:
        did = v["decl"].split(":")[-1]
        v["signature"] = "spelling:%s:%s" % (cls_of.get(did, "?"), v["signature"])
    res.classes = set("%s|%s" % (k, o) for k, c in classes.items() for o in ("accepted", "rejected") if c[o])
    res.extra.setdefault("coverage_extra", {})["spelling_classes"] = classes
    # every accepted declaration must have been exercised on both sides of its rules
    both = sum(1 for r in out["C01"] if r["hist"].get("ok", 0) > 0 and any(k.startswith("err:") for k in r["hist"]))
    res.guard("accepted_declarations_with_both_outcomes", both, 200)
    res.guard("spelling_classes", len(classes), 100)
    res.guard("classes_with_accepted_declarations", sum(1 for c in classes.values() if c["accepted"]), 80)
    res.guard("classes_with_rejected_declarations", sum(1 for c in classes.values() if c["rejected"]), 3)
    res.samples = [{"class": cls_of[d.id], "declaration": d.decl_text(), "macro_verdict": "rejected" if d.id in rejected else "accepted", "denoted": str([v.denoted for v in d.vals])}
                   for d in decls[::max(1, len(decls) // 10)]][:10]
    # ---- declarations that cannot be honoured (a literal pattern that is not a regular expression): refused in every feature configuration that offers `regex`,
    #      each next to a twin that differs only in being a valid pattern
    bad = [('"("', '"(a)"'), ('"[a-"', '"[a-z]"'), ('r"\\p{NoSuchClass}"', 'r"\\p{Greek}"'), ('"a{2,1}"', '"a{1,2}"'), ('"(?P<n>"', '"(?P<n>a)"'), ('"*a"', '"a*"'), ('r"\\"', 'r"\\\\"'),
           ('"(?z)a"', '"(?i)a"'), ('"a)"', '"(a)"')]
    unfaithful = []
    for gi, (gname, feats, dflt) in enumerate((("all", cratebuild.ALL_FEATURES, True), ("regex-only", ["std", "regex"], True), ("nodefault", ["regex", "serde"], False), ("nodefault-regex-only", ["regex"], False))):
        cases = []
        for i, (b_txt, g_txt) in enumerate(bad):
            for j, extra in enumerate(("", "sanitize(trim), ", "validate(not_empty), ")):
                pre, inside = (extra, "") if extra.startswith("sanitize") else ("", extra[len("validate("):-3] + ", " if extra else "")
                body = "use nutype::nutype;\n#[nutype(%svalidate(%sregex = %s), derive(Debug))]\npub struct T(String);\n"
                n = len(cases) // 2
                ca = verdict.Case("u%d%03d" % (gi, n), body % (pre, inside, b_txt), "MUST_REJECT", "unfaithful:invalid-regex-literal:%s" % gname, note=b_txt, group=gname)
                cc = verdict.Case("v%d%03d" % (gi, n), body % (pre, inside, g_txt), "MUST_ACCEPT", "control:valid-regex-literal:%s" % gname, control_of=ca.id, note=g_txt, group=gname)
                cases += [ca, cc]
        vc = verdict.VerdictCrate("c02v-%s-%s" % (gname, tier), feats, extra_deps='regex = "1"\nserde = { version = "1.0.150", features = ["derive"] }\n', default_features=dflt, nshards=4)
        try:
            vout, vinfo = verdict.run_verdicts(vc, cases, log=log)
        except Inconclusive as e:
            res.inconclusive.append(str(e))
            continue
        okc = 0
        for c in cases:
            if c.expect != "MUST_REJECT":
                continue
            oa, oc = vout[c.id], vout["v" + c.id[1:]]
            res.evaluations += 2
            if oc["verdict"] != "accepted":
                res.inconclusive.append("control %s (%s, %s) does not compile: %s" % (c.id, gname, c.note, json.dumps(oc["errors"])[:300]))
                continue
            if oa["verdict"] == "accepted":
                c.group = gname
                res.violations.append(verdict_witness(res, c, "accepted (compiles cleanly)", "unfaithful-declaration-accepted:invalid-regex-literal:" + gname))
            okc += 1
        unfaithful.append((gname, okc))
        res.classes.add("unfaithful:invalid-regex-literal:%s|rejected" % gname)
    res.extra.setdefault("coverage_extra", {})["unfaithful_declarations_judged_with_compiling_twin"] = dict(unfaithful)
    res.guard("unfaithful_declarations_judged", sum(k for _, k in unfaithful), 60)
    res.assumptions += ASSUME_COMMON + ["expression semantics: Rust integer / IEEE float arithmetic as modelled in the generator for the listed forms"]
    return finish(res)


CHECKS = {"C02": check_c02, "C15": check_c15, "C05": check_c05, "C08": check_c08, "C09": check_c09, "C14": check_c14, "C04": check_c04, "C10": check_c10, "C01": check_c01, "C03": check_c03, "C06": check_c06, "C07": check_c07, "C11": check_c11, "C12": check_c12, "C13": check_c13, "C16": check_c16}


def run_check(prop, tier, seed):
    if prop not in CHECKS:
        print("unknown property " + prop)
        return 2
    try:
        return CHECKS[prop](tier, seed)
    except Inconclusive as e:
        print("INCONCLUSIVE property=%s reason=%s" % (prop, e))
        return 2


def setup():
    rc, out, err, dt = run(["cargo", "build", "--offline"], cwd=os.path.join(VERIF, "rt"))
    print(err[-2000:])
    return rc


def replay(path):
    """re-run exactly the recorded witness: runtime kinds re-execute the input, compile kinds re-compile the program"""
    with open(path) as f:
        w = json.load(f)
    prop, kind = w["property"], w.get("kind", "runtime")
    print("replaying %s witness %s (decl %s, signature %s)" % (kind, path, w.get("decl_id"), w.get("signature")))
    if kind == "runtime":
        did = (w["decl_id"] or "").split(":")[-1]
        if not w.get("module_text"):
            print("witness carries no module text (cross-declaration witness): re-run the check instead")
            return 2
        ws = cratebuild.Workspace("replay")
        ok, quarantined, info = cratebuild.build_workspace(ws, [(did, w["module_text"])], cratebuild.ALL_FEATURES, log=log)
        if not ok or quarantined:
            print("INCONCLUSIVE property=%s reason=replay workspace does not build: %s" % (prop, json.dumps(info)[:500] + json.dumps(quarantined)[:500]))
            return 2
        mon = {"C02": "C01"}.get(prop, prop)
        sig = w.get("signature", "")
        if prop == "C02" and "Default:" in sig or "TryFrom" in sig and prop == "C02":
            mon = "C03"
        reports, failures, dt = cratebuild.run_monitor(ws, mon, w.get("tier", "quick"), w.get("seed", 0), os.path.join(ws.dir, "out"), only=did,
                                                       only_input=w.get("input"))
        n = 0
        for r in reports:
            for v in r["violations"]:
                n += 1
                print("REPRODUCED signature=%s input=%s observed=%s expected=%s" % (v["signature"], v["input"], v["observed"], v["expected"]))
        for fl in failures:
            print("monitor failure: %s" % json.dumps(fl)[:400])
        if n:
            print("VIOLATION property=%s replay=%s" % (prop, path))
            return 1
        print("not reproduced on the current tree (executions: %d)" % sum(r["executions"] for r in reports))
        return 0
    if kind in ("compile", "expansion"):
        feats = cratebuild.ALL_FEATURES if w.get("features") != "f0" else ["std"]
        nostd = prop == "C15"
        if nostd:
            vc = verdict.VerdictCrate("replay-v", ["serde", "arbitrary"], default_features=False, no_std=True,
                                      extra_deps='serde = { version = "1.0.150", default-features = false, features = ["derive", "alloc"] }\narbitrary = { version = "1.3.0" }\n')
        else:
            vc = verdict.VerdictCrate("replay-v", feats, extra_deps=FULL_DEPS if "serde" in feats else "")
        body = w["module_text"] or ""
        # module_text is `pub mod <id> { ... }`: strip the wrapper
        inner = body[body.index("{") + 1: body.rindex("}")] if body.strip().startswith("pub mod") else body
        case = verdict.Case("replayed", inner, "UNSPECIFIED", w.get("input") or "")
        out, info = verdict.run_verdicts(vc, [case], log=log)
        print("rustc verdict now: %s %s" % (out["replayed"]["verdict"], json.dumps(out["replayed"]["errors"])[:600]))
        print("recorded: observed=%s expected=%s" % (w.get("observed"), w.get("expected")))
        exp = w.get("expected")
        now = out["replayed"]["verdict"]
        if (exp == "MUST_REJECT" and now == "accepted") or (exp == "MUST_ACCEPT" and now == "rejected"):
            print("VIOLATION property=%s replay=%s" % (prop, path))
            return 1
        return 0
    if kind == "generated-test":
        print("generated-test witness: program below; run `cargo test` on it with nutype from /repo\n" + (w.get("module_text") or ""))
        return 0
    if kind == "program":
        # stand-alone probe programs are small and deterministic: re-run the probe and look for the same signature
        res = Result(prop, w.get("tier", "quick"), w.get("seed", 0))
        regex_without_unicode_probe(res)
        hit = [v for v in res.violations if v["signature"] == w.get("signature") and v["input"] == w.get("input")]
        if hit:
            print("REPRODUCED signature=%s input=%s observed=%s" % (hit[0]["signature"], hit[0]["input"], hit[0]["observed"]))
            print("VIOLATION property=%s replay=%s" % (prop, path))
            return 1
        print("not reproduced on the current tree")
        return 0
    return 2
