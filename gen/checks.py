"""Per-property checks."""
import json, os, sys, time
from .common import *
from .engine import *
from . import cratebuild, corpus_ctor


def check_c01(tier, seed):
    res = Result("C01", tier, seed)
    res.rule = ("declarations: systematic core (every bound kind x bound position x 12 integer types; float bound values incl. +-inf, -0.0, "
                "subnormal, MIN/MAX; every permutation of every subset of {trim, lowercase|uppercase, with} x validator sets; other/generic types; "
                "const_fn/renamed/generic twins); inputs per DESIGN section 4 (all 2^8/2^16 integers, all strings <=L over the hostile alphabet, boundary "
                "neighbourhoods, seeded random tail). A case is one (declaration, outcome class) pair with outcome class in {ok-unchanged, "
                "ok-sanitized, err:<variant>, twins-agree}; distinct_nontrivial counts distinct pairs.")
    decls = [d for d in corpus_ctor.build(tier, seed) if "C01" in d.tags]
    out, by_id = runtime_check(res, "ctor-%s-s%d" % (tier, seed), corpus_ctor.build(tier, seed), ["C01"])
    if out is None:
        return finish(res)
    absorb_reports(res, out["C01"], by_id)
    # guards
    fams = {}
    for r in out["C01"]:
        f = fams.setdefault(r["family"].split(" ")[0].split("{")[0], {"ok": 0, "err": 0, "san": 0})
        f["ok"] += r["hist"].get("ok", 0)
        f["err"] += sum(v for k, v in r["hist"].items() if k.startswith("err:"))
        f["san"] += r["guards"].get("sanitizer_changed_value", 0)
    for fam, c in fams.items():
        res.guard("ok_observed[%s]" % fam, c["ok"], 1)
        res.guard("err_observed[%s]" % fam, c["err"], 1)
        res.guard("sanitizer_changed_value[%s]" % fam, c["san"], 1)
    res.guard("families", len(fams), 4)
    res.guard("const_evaluated", sum(r["guards"].get("const_evaluated", 0) for r in out["C01"]), 1)
    res.guard("twin_groups", sum(1 for r in out["C01"] if r["decl"].startswith("twins:")), 3)
    res.assumptions += ["lowercase/uppercase meaning = this toolchain's str::to_lowercase/to_uppercase", "NaN vs bound validators: either verdict accepted (DESIGN section 3)",
                        "user `with`/predicate functions drawn from a fixed library"]
    return finish(res)


CHECKS = {"C01": check_c01}


def run_check(prop, tier, seed):
    if prop not in CHECKS:
        print("unknown property " + prop)
        return 2
    try:
        return CHECKS[prop](tier, seed)
    except Inconclusive as e:
        print("INCONCLUSIVE property=%s reason=%s" % (prop, e))
        return 2


def setup():
    rc, out, err, dt = run(["cargo", "build", "--offline"], cwd=os.path.join(VERIF, "rt"))
    print(err[-2000:])
    return rc


def replay(path):
    print("replay not implemented yet")
    return 2
