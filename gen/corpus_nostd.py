"""C15 corpus: integer / float / other declarations for a #![no_std] crate (nutype default-features = false)."""
import itertools
from .verdict import Case
from .corpus_verdict import PREREQ

A = "MUST_ACCEPT"

POINT = ("#[derive(Debug, Clone, Copy, PartialEq, Eq, PartialOrd, Ord, Hash, Default, ::serde::Serialize, ::serde::Deserialize)]\n"
         "pub struct Point { pub x: i32, pub y: i32 }\n"
         "impl<'a> ::arbitrary::Arbitrary<'a> for Point { fn arbitrary(u: &mut ::arbitrary::Unstructured<'a>) -> ::arbitrary::Result<Self> { Ok(Point { x: u.arbitrary()?, y: u.arbitrary()? }) } }\n"
         "impl ::core::fmt::Display for Point { fn fmt(&self, f: &mut ::core::fmt::Formatter<'_>) -> ::core::fmt::Result { write!(f, \"{};{}\", self.x, self.y) } }\n"
         "impl ::core::str::FromStr for Point { type Err = (); fn from_str(_s: &str) -> ::core::result::Result<Self, ()> { Ok(Point { x: 0, y: 0 }) } }\n")

MYERR = ("#[derive(Debug, Clone, PartialEq)] pub enum MyErr { Bad }\n"
         "impl ::core::fmt::Display for MyErr { fn fmt(&self, f: &mut ::core::fmt::Formatter<'_>) -> ::core::fmt::Result { write!(f, \"bad\") } }\n"
         "impl ::core::error::Error for MyErr {}\n")

INT_TRAITS = ["Debug", "Clone", "Copy", "PartialEq", "Eq", "PartialOrd", "Ord", "FromStr", "AsRef", "Deref", "Into", "From", "TryFrom", "Hash", "Borrow", "Display", "Default",
              "Serialize", "Deserialize", "Arbitrary"]
FLOAT_TRAITS = [t for t in INT_TRAITS if t != "Hash"]
OTHER_TRAITS = {
    "arr": ["Debug", "Clone", "Copy", "PartialEq", "Eq", "PartialOrd", "Ord", "AsRef", "Deref", "Into", "From", "TryFrom", "Hash", "Borrow", "Default", "Serialize", "Deserialize", "Arbitrary", "IntoIterator"],
    "point": ["Debug", "Clone", "Copy", "PartialEq", "Eq", "PartialOrd", "Ord", "FromStr", "AsRef", "Deref", "Into", "From", "TryFrom", "Hash", "Borrow", "Display", "Default", "Serialize", "Deserialize", "Arbitrary"],
    "vec": ["Debug", "Clone", "PartialEq", "Eq", "PartialOrd", "Ord", "AsRef", "Deref", "Into", "From", "TryFrom", "Hash", "Borrow", "Default", "Serialize", "Deserialize", "Arbitrary", "IntoIterator"],
    "astring": ["Debug", "Clone", "PartialEq", "Eq", "PartialOrd", "Ord", "FromStr", "AsRef", "Deref", "Into", "From", "TryFrom", "Hash", "Borrow", "Display", "Default", "Serialize", "Deserialize", "Arbitrary"],
    "fvec": ["Debug", "Clone", "PartialEq", "PartialOrd", "AsRef", "Deref", "Into", "From", "TryFrom", "Borrow", "Default", "Serialize", "Deserialize", "Arbitrary", "IntoIterator"],
    "box": ["Debug", "Clone", "PartialEq", "Eq", "PartialOrd", "Ord", "AsRef", "Deref", "Into", "From", "TryFrom", "Hash", "Borrow", "Display", "Default", "Serialize", "Deserialize", "Arbitrary"],
    "cow": ["Debug", "Clone", "PartialEq", "Eq", "PartialOrd", "Ord", "AsRef", "Deref", "Into", "From", "TryFrom", "Hash", "Borrow", "Display", "Default", "Serialize", "Deserialize"],
    "pint": ["Debug", "Clone", "Copy", "PartialEq", "Eq", "PartialOrd", "Ord", "FromStr", "AsRef", "Deref", "Into", "From", "TryFrom", "Hash", "Borrow", "Display", "Default", "Serialize", "Deserialize", "Arbitrary"],
    "pfloat": ["Debug", "Clone", "Copy", "PartialEq", "PartialOrd", "FromStr", "AsRef", "Deref", "Into", "From", "TryFrom", "Borrow", "Display", "Default", "Serialize", "Deserialize", "Arbitrary"],
    "opt": ["Debug", "Clone", "Copy", "PartialEq", "Eq", "PartialOrd", "Ord", "AsRef", "Deref", "Into", "From", "TryFrom", "Hash", "Borrow", "Default", "Serialize", "Deserialize", "Arbitrary"],
    "gen": ["Debug", "Clone", "Copy", "PartialEq", "Eq", "PartialOrd", "Ord", "AsRef", "Deref", "Borrow", "Default", "Serialize", "Deserialize", "Arbitrary", "Hash", "Display", "FromStr"],
}


def guard_variants(fam, ty):
    """(label, attrs list, pre items, has_validation, finite, arbitrary_ok)"""
    if fam == "int":
        return [
            ("none", [], "", False, False, True),
            ("sanitize", ["sanitize(with = |x| x)"], "", False, False, True),
            ("bounds", ["validate(greater_or_equal = 1, less = K)"], "const K: %s = 100;\n" % ty, True, False, True),
            ("predicate", ["validate(predicate = |x| *x != 7)"], "", True, False, False),
            ("custom", ["validate(with = check, error = MyErr)"], MYERR + "fn check(_x: &%s) -> ::core::result::Result<(), MyErr> { Ok(()) }\n" % ty, True, False, False),
            ("sanitize+bounds", ["sanitize(with = san)", "validate(less_or_equal = 50)"], "fn san(x: %s) -> %s { x }\n" % (ty, ty), True, False, False),
        ]
    if fam == "float":
        return [
            ("none", [], "", False, False, True),
            ("sanitize", ["sanitize(with = |x| x)"], "", False, False, True),
            ("bounds", ["validate(greater_or_equal = 0.0, less = K)"], "const K: %s = 100.0;\n" % ty, True, False, True),
            ("finite", ["validate(finite, less_or_equal = 1024.0)"], "", True, True, True),
            ("predicate", ["validate(predicate = |x| *x != 7.0)"], "", True, False, False),
            ("custom", ["validate(with = check, error = MyErr)"], MYERR + "fn check(_x: &%s) -> ::core::result::Result<(), MyErr> { Ok(()) }\n" % ty, True, False, False),
        ]
    inner = ty
    return [
        ("none", [], "", False, False, True),
        ("sanitize", ["sanitize(with = |x| x)"], "", False, False, True),
        ("predicate", ["validate(predicate = |_x| true)"], "", True, False, False),
        ("custom", ["validate(with = check, error = MyErr)"], MYERR + "fn check(_x: &%s) -> ::core::result::Result<(), MyErr> { Ok(()) }\n" % inner, True, False, False),
    ]


def build(tier, seed):
    cases = []
    n = 0

    def add(body, rule, expect=A, note=""):
        nonlocal n
        n += 1
        cases.append(Case("n%04d" % n, body, expect, rule, note=note, group="nostd"))

    int_types = ["u8", "i32", "u64", "i128", "usize"] if tier == "quick" else ["u8", "u16", "u32", "u64", "u128", "usize", "i8", "i16", "i32", "i64", "i128", "isize"]
    fams = [("int", t, INT_TRAITS, "%s" % "3") for t in int_types] + [("float", t, FLOAT_TRAITS, "3.5") for t in ("f32", "f64")]
    fams += [("other", "[i32; 3]", OTHER_TRAITS["arr"], "[1, 2, 3]"), ("other", "Point", OTHER_TRAITS["point"], "Point { x: 1, y: 2 }"),
             ("other", "::alloc::vec::Vec<i32>", OTHER_TRAITS["vec"], "::alloc::vec::Vec::new()"),
             # path-spelled alloc / core types: "other" inner types, whose generated code must not assume std's String / Vec family support
             ("other", "::alloc::string::String", OTHER_TRAITS["astring"], "::alloc::string::String::new()"), ("other", "alloc::string::String", OTHER_TRAITS["astring"], "alloc::string::String::new()"),
             ("other", "alloc::vec::Vec<f64>", OTHER_TRAITS["fvec"], "alloc::vec::Vec::new()"), ("other", "::alloc::boxed::Box<i32>", OTHER_TRAITS["box"], "::alloc::boxed::Box::new(0)"),
             ("other", "::alloc::borrow::Cow<'static, str>", OTHER_TRAITS["cow"], "::alloc::borrow::Cow::Borrowed(\"\")"), ("other", "::core::primitive::i32", OTHER_TRAITS["pint"], "3"),
             ("other", "core::primitive::f64", OTHER_TRAITS["pfloat"], "3.5"), ("other", "::core::option::Option<u8>", OTHER_TRAITS["opt"], "::core::option::Option::None")]
    for (fam, ty, traits, dflt) in fams:
        pre0 = POINT if ty == "Point" else ""
        for (label, attrs, pre, hv, finite, arb_ok) in guard_variants(fam, ty):
            # each trait singly (attributable) ...
            singles = []
            for t in traits:
                if t == "From" and hv:
                    continue
                if t in ("Eq", "Ord") and fam == "float" and not finite:
                    continue
                if t == "Arbitrary" and (not arb_ok or (fam == "other" and hv)):
                    continue
                if fam != "other" and t == "Arbitrary" and label in ("sanitize+bounds",):
                    continue
                singles.append(t)
            for t in singles:
                if tier == "quick" and fam == "int" and ty not in ("i32", "u8") and t not in ("FromStr", "Serialize", "Deserialize", "Arbitrary", "Display", "Default", "TryFrom"):
                    continue
                der = [t] + [p for p in PREREQ.get(t, [])]
                a = list(attrs) + ["derive(%s)" % ", ".join(der)] + (["default = %s" % dflt] if t == "Default" else [])
                add("use nutype::nutype;\n%s%s#[nutype(%s)]\npub struct T(%s);" % (pre0, pre, ", ".join(a), ty), "single:%s:%s:%s:%s" % (fam, ty, label, t))
            # ... and all together
            allt = [t for t in singles if not (t == "From" and "TryFrom" in singles)]
            a = list(attrs) + ["derive(%s)" % ", ".join(allt), "default = %s" % dflt]
            add("use nutype::nutype;\n%s%s#[nutype(%s)]\npub struct T(%s);" % (pre0, pre, ", ".join(a), ty), "all:%s:%s:%s" % (fam, ty, label))
        # const_fn
        if fam in ("int", "float"):
            v = "validate(greater_or_equal = 1)" if fam == "int" else "validate(finite)"
            add("use nutype::nutype;\nconst fn san(x: %s) -> %s { x }\n#[nutype(const_fn, sanitize(with = san), %s, derive(Debug))]\npub struct T(%s);\npub const K: ::core::result::Result<T, TError> = T::try_new(%s);"
                % (ty, ty, v, ty, dflt), "const_fn:%s:%s" % (fam, ty))
    # generics
    for t in OTHER_TRAITS["gen"]:
        der = [t] + PREREQ.get(t, [])
        df = ", default = X::default()" if t == "Default" else ""
        bound = "Ord + Copy + Default"
        add("use nutype::nutype;\n#[nutype(sanitize(with = |x| x), derive(%s)%s)]\npub struct W<X: %s>(X);" % (", ".join(der), df, bound), "generic:plain:%s" % t)
        if t != "Arbitrary":
            add("use nutype::nutype;\n#[nutype(validate(predicate = |x| *x >= X::default()), derive(%s)%s)]\npub struct W<X: %s>(X);" % (", ".join(der), df, bound), "generic:validated:%s" % t)
    # the std-using control: shows the crate really is no_std (must be rejected)
    add("use nutype::nutype;\nfn san(x: i32) -> i32 { let _s = ::std::string::String::new(); x }\n#[nutype(sanitize(with = san), derive(Debug))]\npub struct T(i32);", "control:std-path-is-unresolvable", expect="MUST_REJECT")
    add("use nutype::nutype;\nfn san(x: i32) -> i32 { let _s = String::new(); x }\n#[nutype(sanitize(with = san), derive(Debug))]\npub struct T(i32);", "control:std-prelude-name-is-unresolvable", expect="MUST_REJECT")
    add("use nutype::nutype;\nfn san(x: i32) -> i32 { let _v = vec![x]; x }\n#[nutype(sanitize(with = san), derive(Debug))]\npub struct T(i32);", "control:std-macro-is-unresolvable", expect="MUST_REJECT")
    return cases
