"""Exact IEEE rounding of rationals to f32/f64 (independent of the macro's own parsing)."""
import struct
from fractions import Fraction
import math


def f64_bits(x: float) -> int:
    return struct.unpack("<Q", struct.pack("<d", x))[0]


def f32_bits(x: float) -> int:
    return struct.unpack("<I", struct.pack("<f", x))[0]


def bits_f64(b: int) -> float:
    return struct.unpack("<d", struct.pack("<Q", b))[0]


def bits_f32(b: int) -> float:
    return struct.unpack("<f", struct.pack("<I", b))[0]


def _next_f32(b, up):
    # neighbours on the ordered line, finite positive/negative handled by sign-magnitude
    x = bits_f32(b)
    if x == 0.0:
        return 0x00000001 if up else 0x80000001
    if (x > 0) == up:
        return b + 1
    return b - 1


def round_f32(q) -> int:
    """bits of the f32 nearest to the rational q (ties to even); q may be float inf."""
    if isinstance(q, float):
        if math.isinf(q) or math.isnan(q):
            return f32_bits(q)
        q = Fraction(q)
    q = Fraction(q)
    if q == 0:
        return 0
    # start from double-rounded candidate, then fix using exact arithmetic
    try:
        cand = f32_bits(float(q))
    except OverflowError:
        cand = f32_bits(math.inf if q > 0 else -math.inf)
    best = None
    c = cand
    cands = {c}
    for up in (True, False):
        d = c
        for _ in range(2):
            fx = bits_f32(d)
            if math.isinf(fx):
                break
            d = _next_f32(d, up)
            cands.add(d)
    MAXF = Fraction(bits_f32(0x7F7FFFFF))
    half_ulp_max = Fraction(2) ** 103  # half ulp at f32::MAX
    if abs(q) >= MAXF + half_ulp_max:
        return 0x7F800000 if q > 0 else 0xFF800000
    for d in cands:
        fx = bits_f32(d)
        if math.isinf(fx) or math.isnan(fx):
            continue
        err = abs(Fraction(fx) - q)
        key = (err, d & 1)  # ties to even mantissa
        if best is None or key < best[0]:
            best = (key, d)
    return best[1]


def round_f64(q) -> int:
    if isinstance(q, float):
        return f64_bits(q)
    q = Fraction(q)
    try:
        return f64_bits(q.numerator / q.denominator)  # int/int true division is correctly rounded in CPython
    except OverflowError:
        return f64_bits(math.inf if q > 0 else -math.inf)
