"""Seeded random tail of declarations for the runtime workspace: random points of the documented grammar
(family x sanitizers x validators x bound positions/spellings x derive subsets x default), all well-formed
by construction, each tagged for every monitor that applies."""
import random
from fractions import Fraction
from .model import *
from .lib import *
from .corpus_ctor import Builder, int_bound, float_bound, float_denote, REGEXES, INT_DERIVES, FLOAT_DERIVES, STRING_DERIVES


def build(tier, seed):
    n = 120 if tier == "quick" else 600
    b = Builder("r", tier, seed)
    rng = random.Random("random-tail:%s:%s" % (tier, seed))
    for i in range(n):
        fam = rng.choice(["int", "int", "float", "string", "string"])
        tags = ["C01", "C03", "C06", "C07", "C13"]
        idempotent = True
        if fam == "int":
            ty = rng.choice(list(INT_TYPES))
            d = b.new(inner_int(ty), tags=tags)
            lo, hi = int_range(ty)
            if rng.random() < 0.4:
                name, body, _ = rng.choice(int_sanitizer_bodies(ty))
                add_with_sanitizer(d, body, rng.choice(SPELLINGS))
                idempotent = name not in ("wadd1", "half")
            k = rng.choice([0, 1, 1, 2, 2, 3])
            span = min(hi - lo, 1000)
            a = rng.randint(lo, hi - 2) if rng.random() < 0.3 else rng.randint(max(lo, -span), min(hi - 2, span))
            c = min(hi, a + rng.choice([1, 2, 3, 10, 255, 256, 1000]))
            parts = []
            if k >= 1:
                lk = rng.choice(["greater", "greater_or_equal"])
                lv = a - 1 if (lk == "greater" and a - 1 >= lo) else a
                if lk == "greater" and lv == a:
                    lk = "greater_or_equal"
                parts.append(int_bound(lk, ty, lv, rng.choice(["lit", "const", "minmax", "fn"]), d, "LO%d" % i))
            if k >= 2:
                uk = rng.choice(["less", "less_or_equal"])
                uv = c + 1 if (uk == "less" and c + 1 <= hi) else c
                if uk == "less" and uv == c:
                    uk = "less_or_equal"
                parts.append(int_bound(uk, ty, uv, rng.choice(["lit", "const", "minmax"]), d, "HI%d" % i))
            if k >= 3:
                pn, pbody, _ = rng.choice(int_predicate_bodies(ty))
                d.vals = parts
                add_predicate(d, pbody, rng.choice(SPELLINGS[:3]))
                parts = d.vals
            rng.shuffle(parts)
            d.vals = parts
            base = INT_DERIVES
            dflt = rng.choice([a, c, 0 if lo <= 0 <= hi else a, lo, hi])
            dflt_txt = str(dflt)
        elif fam == "float":
            ty = rng.choice(FLOAT_TYPES)
            d = b.new(inner_float(ty), tags=tags)
            if rng.random() < 0.4:
                name, body, _ = rng.choice(float_sanitizer_bodies(ty))
                add_with_sanitizer(d, body, rng.choice(SPELLINGS))
            k = rng.choice([0, 1, 2, 2, 3])
            pool = [("-1e10", -Fraction(10) ** 10), ("-64.0", Fraction(-64)), ("-1.5", Fraction(-3, 2)), ("-0.0", "NEGZERO"), ("0.0", Fraction(0)), ("2.5e-3", Fraction(25, 10000)), ("0.1", Fraction(1, 10)),
                    ("1.0", Fraction(1)), ("64.0", Fraction(64)), ("100", Fraction(100)), ("1e10", Fraction(10) ** 10)]
            ia = rng.randrange(0, len(pool) - 1)
            ic = rng.randrange(ia + 1, len(pool))
            parts = []
            if k >= 1:
                parts.append(float_bound(rng.choice(["greater", "greater_or_equal"]), ty, pool[ia][0], None, pool[ia][1], d))
            if k >= 2:
                # -0.0 / 0.0 are equal: avoid empty intervals
                if pool[ia][0] == "-0.0" and pool[ic][0] == "0.0":
                    ic += 1
                parts.append(float_bound(rng.choice(["less", "less_or_equal"]), ty, pool[ic][0], None, pool[ic][1], d))
            if k >= 3 or rng.random() < 0.3:
                parts.append(Vld("finite"))
            rng.shuffle(parts)
            d.vals = parts
            base = FLOAT_DERIVES
            dv = rng.choice([pool[ia], pool[ic], ("0.5", Fraction(1, 2))])
            dflt, dflt_txt = float_denote(ty, dv[1]), dv[0] + ("" if any(ch in dv[0] for ch in ".e") else ".0")
        else:
            d = b.new(inner_string(), tags=tags)
            sl = []
            if rng.random() < 0.6:
                sl.append("trim")
            if rng.random() < 0.5:
                sl.append(rng.choice(["lowercase", "uppercase"]))
            rng.shuffle(sl)
            for s_ in sl:
                d.sans.append(San(s_))
            if rng.random() < 0.25:
                name, body, _ = rng.choice(string_sanitizer_bodies())
                pos = rng.randint(0, len(d.sans))
                add_with_sanitizer(d, body, rng.choice(SPELLINGS))
                w = d.sans.pop()
                d.sans.insert(pos, w)
                idempotent = name in ("ident", "trimend")
            k = rng.choice([0, 1, 2, 3])
            mn = rng.choice([0, 1, 2, 3])
            mx = mn + rng.choice([0, 1, 2, 5])
            cands = [Vld("len_char_min", str(mn), mn), Vld("len_char_max", str(mx), mx), Vld("not_empty")]
            if rng.random() < 0.3:
                pat = rng.choice(REGEXES)
                cands.append(Vld("regex", '"%s"' % pat.replace("\\", "\\\\"), pat))
            rng.shuffle(cands)
            d.vals = cands[:k]
            if rng.random() < 0.25 and k < 3:
                pn, pbody, _ = rng.choice(string_predicate_bodies())
                add_predicate(d, pbody, rng.choice(SPELLINGS[:3]))
                pv = d.vals.pop()
                d.vals.insert(rng.randint(0, len(d.vals)), pv)
            base = STRING_DERIVES
            dflt = rng.choice(["  Bob ", "", "abc", " xA ", "İ"])
            dflt_txt = rust_str(dflt)
        d.tags.append("C11" if idempotent else "C11v")
        # derive subset: every trait kept with probability 3/4 (prerequisites restored), conversions alternate
        der = [t for t in base if rng.random() < 0.75]
        for t, pre in (("Eq", ["PartialEq"]), ("Ord", ["PartialOrd", "Eq", "PartialEq"]), ("PartialOrd", ["PartialEq"]), ("Copy", ["Clone"])):
            if t in der:
                for p_ in pre:
                    if p_ not in der:
                        der.append(p_)
        if d.inner.fam == "float":
            der = [t for t in der if t not in ("Eq", "Ord", "Hash")]
            if any(v.kind == "finite" for v in d.vals) and rng.random() < 0.7:
                der += [t for t in ("PartialEq", "Eq", "PartialOrd", "Ord") if t not in der]
                d.tags.append("C12")
        der.append("TryFrom" if (d.has_validation or rng.random() < 0.5) else "From")
        if rng.random() < 0.4:
            d.default = (dflt_txt, dflt)
            der.append("Default")
        if rng.random() < 0.35:
            der += ["Serialize", "Deserialize"]
            if "PartialEq" not in der:
                der.append("PartialEq")
            d.tags.append("C04")
            if idempotent:
                d.tags.append("C10")
        d.derives = der
        bounds_only = [v for v in d.vals if v.kind in ("greater", "greater_or_equal", "less", "less_or_equal", "len_char_min", "len_char_max")]
        if not d.sans and len(d.vals) == 1 and len(bounds_only) == 1 and not (bounds_only[0].kind == "len_char_min" and bounds_only[0].denoted == 0):
            d.tags.append("C16")
    return b.decls
