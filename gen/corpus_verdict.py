"""C08 verdict corpus: declarations paired with the verdict of an independent reference predicate
written from the README / crate docs (not from validate.rs)."""
import itertools, random
from .verdict import Case

A, R, U = "MUST_ACCEPT", "MUST_REJECT", "UNSPECIFIED"

POINT = """#[derive(Debug, Clone, Copy, PartialEq, Eq, PartialOrd, Ord, Hash, Default)]
pub struct Point { pub x: i32, pub y: i32 }
impl ::core::fmt::Display for Point { fn fmt(&self, f: &mut ::core::fmt::Formatter<'_>) -> ::core::fmt::Result { write!(f, "{};{}", self.x, self.y) } }
impl ::core::str::FromStr for Point { type Err = (); fn from_str(_s: &str) -> Result<Self, ()> { Ok(Point { x: 0, y: 0 }) } }
"""
POINT_SERDE = POINT.replace("Hash, Default)]", "Hash, Default, ::serde::Serialize, ::serde::Deserialize, ::arbitrary::Arbitrary)]")

FAMILIES = {
    "string": dict(inner="String", std_validate="len_char_max = 5", default='"ab"', pred="|s| !s.is_empty()", san="trim", custom_arg="&str"),
    "int": dict(inner="i32", std_validate="greater_or_equal = 1", default="3", pred="|x| *x != 7", san="with = |x| x", custom_arg="&i32"),
    "float": dict(inner="f64", std_validate="greater_or_equal = 1.0", default="3.5", pred="|x| *x != 7.0", san="with = |x| x", custom_arg="&f64"),
    "other": dict(inner="Vec<i32>", std_validate="predicate = |v| v.len() < 9", default="vec![1]", pred="|v| v.len() < 9", san="with = |v| v", custom_arg="&Vec<i32>"),
}

DOC_TRAITS = {
    "string": ["Debug", "Clone", "PartialEq", "Eq", "PartialOrd", "Ord", "FromStr", "AsRef", "Deref", "From", "TryFrom", "Into", "Hash", "Borrow", "Display", "Default", "Serialize", "Deserialize"],
    "int": ["Debug", "Clone", "Copy", "PartialEq", "Eq", "PartialOrd", "Ord", "FromStr", "AsRef", "Deref", "Into", "From", "TryFrom", "Hash", "Borrow", "Display", "Default", "Serialize", "Deserialize"],
    "float": ["Debug", "Clone", "Copy", "PartialEq", "Eq", "PartialOrd", "Ord", "FromStr", "AsRef", "Deref", "Into", "From", "TryFrom", "Hash", "Borrow", "Display", "Default", "Serialize", "Deserialize"],
    "other": ["Debug", "Clone", "PartialEq", "Eq", "PartialOrd", "Ord", "AsRef", "Deref", "Into", "From", "TryFrom", "Hash", "Borrow", "Default", "Serialize", "Deserialize", "IntoIterator"],
}
ALL_TRAITS = ["Debug", "Clone", "Copy", "PartialEq", "Eq", "PartialOrd", "Ord", "FromStr", "AsRef", "Deref", "Into", "From", "TryFrom", "Hash", "Borrow",
              "Display", "Default", "Serialize", "Deserialize", "IntoIterator", "Arbitrary", "JsonSchema"]
PREREQ = {"Eq": ["PartialEq"], "Ord": ["PartialOrd", "Eq", "PartialEq"], "PartialOrd": ["PartialEq"], "Copy": ["Clone"]}
FEATURE_OF = {"Serialize": "serde", "Deserialize": "serde", "Arbitrary": "arbitrary", "JsonSchema": "schemars08"}


def reference_trait_verdict(fam, trait, validation, features):
    """validation in none|standard|finite(float: standard incl. finite)|custom. Independent of validate.rs."""
    feat = FEATURE_OF.get(trait)
    if feat and feat not in features:
        return R, "feature-gated trait without its feature"
    if trait == "JsonSchema":
        return U, "schemars not exercised"
    if trait == "Copy" and fam in ("string", "other"):
        return R, "Copy on a non-Copy inner type"
    if trait == "IntoIterator":
        return (A, "documented") if fam == "other" else (R, "IntoIterator on a non-collection family")
    if trait in ("FromStr", "Display") and fam == "other":
        return R, "Vec has no FromStr/Display"
    if trait == "From" and validation != "none":
        return R, "From alongside validators"
    if trait in ("Eq", "Ord") and fam == "float":
        return (A, "finite given") if validation == "finite" else (R, "float Eq/Ord without finite")
    if trait == "Hash" and fam == "float":
        return U, "README lists Hash for floats, f64: !Hash"
    if trait == "Arbitrary":
        if validation == "custom":
            return R, "Arbitrary with custom validation cannot be derived"
        if fam == "other" and validation != "none":
            return U, "Arbitrary for other types with validation"
        return A, "documented"
    if trait in DOC_TRAITS[fam]:
        return A, "documented derivable trait"
    return R, "trait not derivable for this family"


def custom_items(fam):
    f = FAMILIES[fam]
    return ("#[derive(Debug, Clone, PartialEq)] pub enum MyErr { Bad }\n"
            "impl ::core::fmt::Display for MyErr { fn fmt(&self, f: &mut ::core::fmt::Formatter<'_>) -> ::core::fmt::Result { write!(f, \"bad\") } }\n"
            "impl ::std::error::Error for MyErr {}\n"
            "fn check(_x: %s) -> Result<(), MyErr> { Ok(()) }\n" % f["custom_arg"])


def decl(name, inner, attrs, pre="", generics="", vis="pub", field_vis="", struct_attrs=""):
    a = ("#[nutype(%s)]\n" % attrs) if attrs is not None else "#[nutype]\n"
    return "use nutype::nutype;\n%s%s%s%s struct %s%s(%s%s);" % (pre, a, struct_attrs, vis, name, generics, field_vis, inner)


class VB:
    def __init__(self):
        self.cases = []
        self.n = 0

    def add(self, body, expect, rule, note="", group="all"):
        self.n += 1
        c = Case("k%04d" % self.n, body, expect, rule, note=note, group=group)
        self.cases.append(c)
        return c


def validate_attr(fam, validation):
    f = FAMILIES[fam]
    if validation == "none":
        return None, ""
    if validation == "standard":
        return "validate(%s)" % f["std_validate"], ""
    if validation == "finite":
        return "validate(finite, %s)" % f["std_validate"], ""
    if validation == "custom":
        return "validate(with = check, error = MyErr)", custom_items(fam)
    raise ValueError(validation)


def matrix(vb: VB, features, group, tier):
    for fam in FAMILIES:
        f = FAMILIES[fam]
        vals = ["none", "standard", "custom"] + (["finite"] if fam == "float" else [])
        for validation in vals:
            for trait in ALL_TRAITS:
                exp, why = reference_trait_verdict(fam, trait, validation, features)
                der = [trait] + PREREQ.get(trait, [])
                # prerequisites must themselves be admissible, otherwise the cell says nothing about `trait`
                if any(reference_trait_verdict(fam, p, validation, features)[0] != A for p in PREREQ.get(trait, [])) and exp == A:
                    continue
                if any(reference_trait_verdict(fam, p, validation, features)[0] == R for p in PREREQ.get(trait, [])):
                    if exp != R:
                        continue
                va, pre = validate_attr(fam, validation)
                parts = [p for p in [va, "derive(%s)" % ", ".join(der), ("default = %s" % f["default"]) if trait == "Default" else None] if p]
                body = decl("T", f["inner"], ", ".join(parts), pre=pre)
                vb.add(body, exp, "matrix:%s:%s:%s" % (fam, validation, trait), note=why, group=group)


def rules(vb: VB, features, group):
    full = "serde" in features
    add = lambda body, exp, rule, note="": vb.add(body, exp, rule, note, group)
    # R1 visible inner field
    add(decl("T", "i32", "derive(Debug)", field_vis="pub "), R, "R1:visible-field:pub")
    add(decl("T", "String", "sanitize(trim)", field_vis="pub(crate) "), R, "R1:visible-field:pub(crate)")
    add(decl("T", "f64", "validate(finite)", field_vis="pub(super) "), R, "R1:visible-field:pub(super)")
    add(decl("T", "Vec<u8>", "derive(Debug)", field_vis="pub(in crate) "), R, "R1:visible-field:pub(in crate)")
    add(decl("T", "i32", "derive(Debug)"), A, "R1:neighbour:private-field")
    for vis in ("", "pub(crate)", "pub(super)", "pub"):
        add(decl("T", "i32", "validate(greater = 0), derive(Debug)", vis=vis), A, "R1:neighbour:type-visibility:" + (vis or "private"))
    # R2 foreign attributes / R3 #[derive]
    # (#[cfg(..)] is evaluated and stripped by rustc before the macro runs, so it is not a foreign attribute the macro can see)
    for attr in ("#[repr(transparent)]", "#[allow(dead_code)]", "#[must_use]", "#[non_exhaustive]", "#[serde(transparent)]"):
        add(decl("T", "i32", "derive(Debug)", struct_attrs=attr + "\n"), R, "R2:foreign-attribute:" + attr)
    add(decl("T", "i32", "derive(Debug)", struct_attrs="/// documented\n"), A, "R2:neighbour:doc-comment")
    add(decl("T", "i32", "derive(Debug)", struct_attrs="#[doc = \"documented\"]\n"), A, "R2:neighbour:doc-attribute")
    add(decl("T", "i32", "derive(Clone)", struct_attrs="#[derive(Debug)]\n"), R, "R3:derive-attribute")
    add(decl("T", "String", None, struct_attrs="#[derive(Debug, Clone)]\n"), R, "R3:derive-attribute:bare-nutype")
    # R4 unknown / mis-cased / wrong-family
    unknown = [
        ("String", "sanitize(trimm)", "unknown-sanitizer"), ("String", "sanitize(Trim)", "mis-cased-sanitizer"), ("String", "sanitize(TRIM)", "mis-cased-sanitizer"),
        ("i32", "sanitize(trim)", "wrong-family-sanitizer"), ("f64", "sanitize(lowercase)", "wrong-family-sanitizer"), ("Vec<i32>", "sanitize(trim)", "wrong-family-sanitizer"),
        ("String", "validate(notempty)", "unknown-validator"), ("String", "validate(NotEmpty)", "mis-cased-validator"), ("String", "validate(lenCharMax = 3)", "mis-cased-validator"),
        ("i32", "validate(not_empty)", "wrong-family-validator"), ("String", "validate(greater = 1)", "wrong-family-validator"), ("i32", "validate(finite)", "wrong-family-validator"),
        ("f64", "validate(len_char_max = 3)", "wrong-family-validator"), ("Vec<i32>", "validate(greater = 1)", "wrong-family-validator"), ("i32", "validate(regex = \"a\")", "wrong-family-validator"),
        ("i32", "validate(max = 3)", "unknown-validator"), ("i32", "derive(Foo)", "unknown-trait"), ("i32", "derive(debug)", "mis-cased-trait"), ("i32", "derive(std::fmt::Debug)", "path-trait"),
        ("i32", "sanitise(with = |x| x)", "unknown-attribute"), ("i32", "validates(greater = 1)", "unknown-attribute"), ("i32", "Derive(Debug)", "mis-cased-attribute"),
        ("i32", "constfn", "unknown-attribute"), ("i32", "validate", "validate-without-parens"), ("i32", "derive", "derive-without-parens"), ("String", "sanitize", "sanitize-without-parens"),
        ("i32", "validate()", "empty-validate"), ("i32", "default", "default-without-value"),
    ]
    unknown += [
        ("i32", "validate[greater = 1]", "wrong-delimiter"), ("i32", "validate{greater = 1}", "wrong-delimiter"), ("i32", "derive[Debug]", "wrong-delimiter"),
        ("String", "sanitize = trim", "attribute-shape"), ("i32", "validate(greater: 1)", "attribute-shape"), ("i32", "validate(greater 1)", "attribute-shape"),
        ("i32", "validate(greater == 1)", "attribute-shape"), ("i32", "default(5), derive(Default)", "attribute-shape"), ("i32", "default: 5, derive(Default)", "attribute-shape"),
        ("i32", "validate(greater = )", "attribute-shape"), ("i32", "validate(= 1)", "attribute-shape"), ("i32", "derive(Debug;Clone)", "attribute-shape"),
        ("i32", "validate(greater = 1; less = 5)", "attribute-shape"), ("String", "validate(len_char_max = \"3\")", "bound-of-wrong-literal-type"),
        ("i32", "validate(greater = \"1\")", "bound-of-wrong-literal-type"), ("f64", "validate(less = 'a')", "bound-of-wrong-literal-type"), ("i32", "validate(greater = 1.5)", "bound-of-wrong-literal-type"),
        ("u8", "validate(less = 300)", "bound-out-of-type-range"), ("u8", "validate(greater = -1)", "bound-out-of-type-range"),
        ("String", "sanitize(trim, lowercas)", "unknown-sanitizer-last"), ("String", "sanitize(trim, Lowercase, with = |s| s)", "mis-cased-sanitizer-middle"),
        ("String", "validate(not_empty, len_char_maxx = 3)", "unknown-validator-last"), ("i32", "validate(greater = 1, finite)", "wrong-family-validator-last"),
        ("i32", "validate(greater = 1, not_empty, less = 9)", "wrong-family-validator-middle"), ("f64", "validate(finite, len_char_max = 3)", "wrong-family-validator-last"),
        ("i32", "derive(Debug, Foo, Clone)", "unknown-trait-middle"), ("i32", "derive(Debug, Clone, IntoIterator)", "wrong-family-trait-last"), ("String", "derive(Debug, Copy, Clone)", "wrong-family-trait-middle"),
        ("i32", "derive(Debug), bogus, validate(greater = 1)", "unknown-attribute-middle"), ("i32", "validate(greater = 1), derive(Debug), bogus", "unknown-attribute-last"),
    ]
    for inner, attrs, what in unknown:
        add(decl("T", inner, attrs), R, "R4:" + what + ":" + attrs)
    add(decl("T", "String", "sanitize(trim), validate(not_empty), derive(Debug)"), A, "R4:neighbour:well-spelled")
    add(decl("T", "i32", "sanitize(), derive()"), U, "R4:empty-sanitize-and-derive")
    # R5 duplicates
    dups = [("String", "sanitize(trim, trim)"), ("String", "sanitize(lowercase, trim, lowercase)"), ("i32", "sanitize(with = |x| x, with = |x| x)"),
            ("i32", "validate(greater = 1, greater = 2)"), ("i32", "validate(less = 5, greater = 1, less = 6)"), ("f64", "validate(finite, finite)"),
            ("String", "validate(not_empty, not_empty)"), ("String", "validate(len_char_max = 3, len_char_max = 3)"), ("String", "validate(predicate = |s| true, predicate = |s| false)"),
            ("Vec<i32>", "validate(predicate = |v| true, predicate = |v| true)"),
            ("i32", "validate(greater = 1, greater_or_equal = 1)"), ("f64", "validate(less = 5.0, less_or_equal = 9.0)")]
    for inner, attrs in dups:
        add(decl("T", inner, attrs), R, "R5:duplicate:" + attrs)
    # two bounds on the same side, one of them an expression, nothing on the other side
    kpre = "const K: i32 = 18;\n"
    for attrs in ("validate(greater = K, greater_or_equal = 21)", "validate(greater_or_equal = 21, greater = K)", "validate(greater = 21, greater_or_equal = K)", "validate(less = K, less_or_equal = 5)",
                  "validate(less_or_equal = K, less = 5)", "validate(greater = K, greater_or_equal = K + 1)", "validate(greater = K, greater_or_equal = 21, less = 100)", "validate(less = 5, less_or_equal = K, greater = 0)"):
        add(decl("T", "i32", attrs, pre=kpre), R, "R5:duplicate:same-side-bounds-with-expression:" + attrs)
    for attrs in ("validate(greater = F, greater_or_equal = 2.5)", "validate(less_or_equal = F, less = 2.5)", "validate(finite, greater = 2.5, greater_or_equal = F)"):
        add(decl("T", "f64", attrs, pre="const F: f64 = 1.5;\n"), R, "R5:duplicate:same-side-bounds-with-expression:" + attrs)
    add(decl("T", "i32", "derive(Debug, Debug)"), U, "R5:duplicate-trait (harmless)")
    add(decl("T", "i32", "validate(greater = 1), validate(less = 5)"), R, "R5:repeated-validate-block")
    add(decl("T", "String", "sanitize(trim), sanitize(lowercase)"), R, "R5:repeated-sanitize-block")
    add(decl("T", "i32", "derive(Debug), derive(Clone)"), R, "R5:repeated-derive-block")
    add(decl("T", "i32", "derive(Default), default = 1, default = 2"), R, "R5:repeated-default")
    # a repeated block in every order with any subset of the other blocks around / between the two occurrences
    blocks = {"sanitize": ("sanitize(with = |x| x.wrapping_add(1))", "sanitize(with = |x| x.wrapping_mul(2))"), "validate": ("validate(greater = 1)", "validate(less = 50)"),
              "derive": ("derive(Debug, Default)", "derive(Clone)"), "default": ("default = 7", "default = 8")}
    for rb, (t1, t2) in blocks.items():
        others = [k for k in blocks if k != rb]
        for k in range(0, 4):
            for sub in itertools.combinations(others, k):
                if ("default" in sub or rb == "default") and not ("derive" in sub or rb == "derive"):
                    continue
                for perm in itertools.permutations(("#1", "#2") + sub):
                    if perm.index("#1") > perm.index("#2"):
                        continue
                    attrs = ", ".join(t1 if x == "#1" else t2 if x == "#2" else blocks[x][0] for x in perm)
                    add(decl("T", "i32", attrs), R, "R5:repeated-%s-block:%s" % (rb, "-".join(x if x[0] != "#" else rb for x in perm)))
    add(decl("T", "i32", "validate(greater = 1, less = 5)"), A, "R5:neighbour:both-bounds-once")
    # R6 lowercase + uppercase
    add(decl("T", "String", "sanitize(lowercase, uppercase)"), R, "R6:lowercase+uppercase")
    add(decl("T", "String", "sanitize(uppercase, trim, lowercase)"), R, "R6:lowercase+uppercase")
    add(decl("T", "String", "sanitize(trim, uppercase)"), A, "R6:neighbour")
    add(decl("T", "String", "sanitize(with = |s| s, lowercase, trim, uppercase)"), R, "R6:lowercase+uppercase:with-first")
    add(decl("T", "String", "sanitize(trim, lowercase, with = |s| s, uppercase)"), R, "R6:lowercase+uppercase:with-between")
    # R7 literal bounds excluding each other, every relative position
    for ty, lit in (("i32", lambda v: str(v)), ("u8", lambda v: str(v)), ("f64", lambda v: "%s.0" % v), ("f32", lambda v: "%s.5" % v), ("i128", lambda v: str(v))):
        for lk, uk in itertools.product(["greater", "greater_or_equal"], ["less", "less_or_equal"]):
            for (lo, hi) in [(5, 3), (5, 5), (3, 5), (3, 4)]:
                for order in (0, 1):
                    parts = ["%s = %s" % (lk, lit(lo)), "%s = %s" % (uk, lit(hi))]
                    if order:
                        parts.reverse()
                    excl = lk == "greater" or uk == "less"
                    is_int = not ty.startswith("f")
                    if lo > hi:
                        exp = R
                    elif lo == hi:
                        exp = R if excl else A
                    elif hi - lo == 1 and is_int and lk == "greater" and uk == "less":
                        exp = U      # adjacent exclusive integer bounds: empty for integers, docs silent
                    else:
                        exp = A
                    add(decl("T", ty, "validate(%s)" % ", ".join(parts)), exp, "R7:bounds:%s:%s/%s:%s..%s" % (ty, lk, uk, lo, hi))
    # contradictory literal bounds with other validators before / between / after them
    for items in (["predicate = |x| true", "greater = 5", "less = 3"], ["greater = 5", "predicate = |x| true", "less = 3"], ["less = 3", "greater = 5", "predicate = |x| true"],
                  ["predicate = |x| true", "less_or_equal = 3", "greater_or_equal = 5"]):
        add(decl("T", "i32", "validate(%s)" % ", ".join(items)), R, "R7:bounds:with-predicate-at-various-positions")
    for items in (["finite", "greater = 5.0", "less = 3.0"], ["greater = 5.0", "finite", "less = 3.0"], ["less_or_equal = 3.0", "greater_or_equal = 5.0", "finite"]):
        add(decl("T", "f64", "validate(%s)" % ", ".join(items)), R, "R7:bounds:with-finite-at-various-positions")
    for items in (["not_empty", "len_char_min = 5", "len_char_max = 3"], ["len_char_max = 3", "not_empty", "len_char_min = 5"], ["len_char_min = 5", "predicate = |s| true", "len_char_max = 3"]):
        add(decl("T", "String", "validate(%s)" % ", ".join(items)), R, "R7:len-bounds:various-positions")
    # literal spellings with underscores / int literal for a float bound are still literals the macro can compare
    for (ty, mn, mx) in (("i8", -128, 127), ("i16", -32768, 32767), ("i32", -2147483648, 2147483647), ("i64", -9223372036854775808, 9223372036854775807), ("u8", 0, 255),
                         ("i128", -170141183460469231731687303715884105728, 170141183460469231731687303715884105727)):
        add(decl("T", ty, "validate(greater = %d, less = %d)" % (mn, mn)), R, "R7:bounds:at-type-min:%s" % ty)
        add(decl("T", ty, "validate(greater_or_equal = %d, less = %d)" % (mn, mn)), R, "R7:bounds:at-type-min:%s" % ty)
        add(decl("T", ty, "validate(greater = %d, less_or_equal = %d)" % (mx, mx)), R, "R7:bounds:at-type-max:%s" % ty)
        add(decl("T", ty, "validate(greater_or_equal = %d, less_or_equal = %d)" % (mn + 1, mn)), R, "R7:bounds:at-type-min:%s" % ty)
        add(decl("T", ty, "validate(greater_or_equal = %d, less_or_equal = %d)" % (mn, mn)), A, "R7:bounds:at-type-min-neighbour:%s" % ty)
        add(decl("T", ty, "validate(greater_or_equal = %d, less_or_equal = %d)" % (mx, mx)), A, "R7:bounds:at-type-max-neighbour:%s" % ty)
    add(decl("T", "i32", "validate(greater = 2_0, less = 1_0)"), R, "R7:bounds:underscored-literals")
    add(decl("T", "i64", "validate(greater_or_equal = 1_000_000, less_or_equal = 999_999)"), R, "R7:bounds:underscored-literals")
    add(decl("T", "f64", "validate(greater = 10, less = 5)"), R, "R7:bounds:int-literals-for-float")
    add(decl("T", "f64", "validate(greater_or_equal = 1e1, less_or_equal = 5.0)"), R, "R7:bounds:exponent-literal")
    add(decl("T", "f32", "validate(greater = 2.5, less_or_equal = 2.5)"), R, "R7:bounds:equal-float-exclusive")
    add(decl("T", "i32", "validate(greater = 1_0, less = 2_0)"), A, "R7:bounds:underscored-literals-neighbour")
    add(decl("T", "f64", "validate(greater_or_equal = 1_000.0, less_or_equal = 999.5)"), R, "R7:bounds:underscored-float-literals")
    add(decl("T", "f32", "validate(greater = 1_0.5, less = 1_0.25)"), R, "R7:bounds:underscored-float-literals")
    add(decl("T", "f64", "validate(less = 1_000.5, greater = 2_000.5)"), R, "R7:bounds:underscored-float-literals")
    add(decl("T", "f64", "validate(greater_or_equal = 999.5, less_or_equal = 1_000.0)"), A, "R7:bounds:underscored-float-literals-neighbour")
    add(decl("T", "i32", "validate(greater = -3, less = -5)"), R, "R7:bounds:negative")
    add(decl("T", "i32", "validate(greater = -5, less = -3)"), A, "R7:bounds:negative-neighbour")
    add(decl("T", "String", "validate(len_char_min = 5, len_char_max = 3)"), R, "R7:len-bounds")
    add(decl("T", "String", "validate(len_char_max = 3, len_char_min = 5)"), R, "R7:len-bounds")
    add(decl("T", "String", "validate(len_char_min = 3, len_char_max = 3)"), A, "R7:len-bounds-equal")
    # bound spellings x the code generators that splice the bound into their own code (Arbitrary, Display of the error, planted tests): all well-formed
    arb = ", Arbitrary" if "arbitrary" in features else ""
    ipre = "const K: i32 = 10; const A: i32 = 1; const B: i32 = 6;\n"
    int_sp = ["K", "-K", "K + 1", "K - 1", "1 << 4", "A | B", "(K)", "{ K }", "K * 2", "i32::MIN + 5", "0x0F", "-(1 << 2)", "(1 << 4) - 1", "if K > 5 { 7 } else { 3 }", "K as i32", "!0 - 5", "1 + 2", "-1 + 10",
              "K.pow(2)", "i32::from(3i8)", "[1, 2, 3][1]", "(1, 2).1", "K / 3", "K % 3", "K ^ 3", "K & 6", "-K + 1", "- 5", "-(5)", "1_0"]
    for sp in int_sp:
        for kinds in (("greater",), ("greater_or_equal",), ("less",), ("less_or_equal",), ("greater_or_equal", "less_or_equal"), ("greater", "less"), ("less", "greater_or_equal")):
            parts = []
            for k in kinds:
                if len(kinds) == 1 or k.startswith("greater"):
                    parts.append("%s = %s" % (k, sp))
                else:
                    parts.append("%s = 1000" % k)
            add(decl("T", "i32", "validate(%s), derive(Debug, Display, FromStr%s)" % (", ".join(parts), arb), pre=ipre), A, "spelling-x-generators:int:%s:%s" % ("+".join(kinds), sp))
    fpre = "const F: f64 = 4.0;\n"
    float_sp = ["F", "-F", "F + 1.0", "F - 1.0", "1.0 + 2.0", "-1.0 + 10.0", "(F)", "{ F }", "F * 2.0", "2.5e0", "3", "f64::EPSILON", "F / 3.0", "-(F - 1.0)", "(F + 1.0)", "-F + 1.0", "F.sqrt()", "f64::from(3u8)",
                "if F > 1.0 { 2.0 } else { 3.0 }", "3 as f64", "- 5.0", "-(5.0)", "1_0.5", "[1.0, 2.0][1]"]
    for sp in float_sp:
        for kinds in (("greater",), ("greater_or_equal",), ("less",), ("less_or_equal",), ("greater_or_equal", "less_or_equal"), ("greater", "less"), ("less", "greater_or_equal"), ("finite", "greater", "less_or_equal")):
            parts = []
            for k in kinds:
                if k == "finite":
                    parts.append(k)
                elif len(kinds) == 1 or k.startswith("greater"):
                    parts.append("%s = %s" % (k, sp))
                else:
                    parts.append("%s = %s" % (k, "1000.0" if len(parts) % 2 == 0 else "500.0 + 500.0"))
            add(decl("T", "f64", "validate(%s), derive(Debug, Display, FromStr%s)" % (", ".join(parts), arb), pre=fpre), A, "spelling-x-generators:float:%s:%s" % ("+".join(kinds), sp))
    spre = "const N: usize = 3; const M: usize = 20;\n"
    for sp in ["N", "N + 1", "(N)", "{ N }", "N * 2", "1 << 2", "N | 4", "M - N", "usize::MIN + 2", "if N > 1 { 2 } else { 1 }", "N as usize", "1 + 2", "[1, 2, 3][1]", "N.pow(2)", "0x03", "M / 4"]:
        for kinds in (("len_char_min",), ("len_char_max",), ("len_char_min", "len_char_max"), ("len_char_max", "len_char_min"), ("not_empty", "len_char_min")):
            parts = []
            for k in kinds:
                if k == "not_empty":
                    parts.append(k)
                elif len(kinds) == 1 or k == "len_char_min":
                    parts.append("%s = %s" % (k, sp))
                else:
                    parts.append("%s = 50" % k)
            add(decl("T", "String", "sanitize(trim), validate(%s), derive(Debug, Display, FromStr%s)" % (", ".join(parts), arb), pre=spre), A, "spelling-x-generators:string:%s:%s" % ("+".join(kinds), sp))
    # R8 with / error
    ci = custom_items("int")
    add(decl("T", "i32", "validate(with = check)", pre=ci), R, "R8:with-without-error")
    add(decl("T", "i32", "validate(error = MyErr)", pre=ci), R, "R8:error-without-with")
    add(decl("T", "i32", "validate(with = check, error = MyErr, greater = 1)", pre=ci), R, "R8:with-mixed-with-builtins")
    add(decl("T", "i32", "validate(greater = 1, with = check, error = MyErr)", pre=ci), R, "R8:with-mixed-with-builtins")
    add(decl("T", "i32", "validate(with = check, with = check, error = MyErr)", pre=ci), R, "R8:duplicate-with")
    add(decl("T", "i32", "validate(with = check, error = MyErr, error = MyErr)", pre=ci), R, "R8:duplicate-error")
    add(decl("T", "i32", "validate(error = MyErr, with = check)", pre=ci), A, "R8:neighbour:error-first")
    add(decl("T", "i32", "validate(with = check, error = MyErr,)", pre=ci), A, "R8:neighbour:trailing-comma")
    add(decl("T", "String", "validate(with = check, error = MyErr), derive(Debug, TryFrom, FromStr)", pre=custom_items("string")), A, "R8:neighbour:string-custom")
    # R9 From
    add(decl("T", "i32", "derive(From, TryFrom)"), R, "R9:From+TryFrom")
    add(decl("T", "String", "derive(TryFrom, From)"), R, "R9:From+TryFrom")
    add(decl("T", "i32", "validate(greater = 1), derive(From)"), R, "R9:From-with-validators")
    add(decl("T", "i32", "sanitize(with = |x| x), derive(From)"), A, "R9:neighbour:From-with-sanitizer-only")
    add(decl("T", "i32", "validate(greater = 1), derive(Debug, Clone, From, Display)"), R, "R9:From-with-validators:middle-of-derive-list")
    add(decl("T", "String", "derive(Debug, From, Clone, TryFrom, Display)"), R, "R9:From+TryFrom:non-adjacent")
    add(decl("T", "f64", "derive(From), validate(finite)"), R, "R9:From-with-validators:derive-before-validate")
    # R10 float Eq / Ord
    add(decl("T", "f64", "validate(greater = 0.0), derive(PartialEq, Eq)"), R, "R10:Eq-without-finite")
    add(decl("T", "f64", "derive(PartialEq, Eq)"), R, "R10:Eq-without-validation")
    add(decl("T", "f32", "validate(predicate = |x| !x.is_nan()), derive(PartialEq, Eq, PartialOrd, Ord)"), R, "R10:Ord-with-predicate-only")
    add(decl("T", "f64", "validate(with = check, error = MyErr), derive(PartialEq, Eq)", pre=custom_items("float")), R, "R10:Eq-with-custom-validation")
    add(decl("T", "f64", "validate(finite), derive(Eq)"), R, "R10:Eq-without-PartialEq")
    add(decl("T", "f64", "validate(finite), derive(PartialEq, Eq, Ord)"), R, "R10:Ord-without-PartialOrd")
    add(decl("T", "f64", "validate(finite), derive(PartialEq, PartialOrd, Ord)"), R, "R10:Ord-without-Eq")
    add(decl("T", "f64", "validate(finite), derive(PartialEq, Eq, PartialOrd, Ord)"), A, "R10:neighbour")
    add(decl("T", "f32", "validate(less = 5.0, finite), derive(Ord, PartialOrd, Eq, PartialEq)"), A, "R10:neighbour:any-order")
    # R11 Default
    add(decl("T", "i32", "derive(Default)"), R, "R11:Default-without-default")
    add(decl("T", "String", "validate(not_empty), derive(Default)"), R, "R11:Default-without-default")
    add(decl("T", "Vec<i32>", "derive(Default)"), R, "R11:Default-without-default")
    add(decl("T", "i32", "derive(Default), default = 5"), A, "R11:neighbour")
    add(decl("T", "f64", "validate(finite), derive(Debug, Clone, Default, PartialEq)"), R, "R11:Default-without-default:middle-of-derive-list")
    add(decl("T", "i32", "default = 5"), U, "R11:default-without-derive")
    # R12 regex
    if "regex" in features:
        add(decl("T", "String", 'validate(regex = "(")'), R, "R12:invalid-regex-literal")
        add(decl("T", "String", 'validate(regex = "[z-a]")'), R, "R12:invalid-regex-literal")
        add(decl("T", "String", 'validate(regex = "^a+$")'), A, "R12:neighbour")
        # well-formed but beyond the size limit the generated `Regex::new` will apply at run time
        add(decl("T", "String", 'validate(regex = r"^\\w{1,300}$")'), R, "R12:regex-too-big")
        add(decl("T", "String", 'validate(regex = r"(\\pL{50}){60}")'), R, "R12:regex-too-big")
        add(decl("T", "String", 'validate(not_empty, regex = r"^\\w{1,300}$", len_char_max = 5)'), R, "R12:regex-too-big")
        add(decl("T", "String", 'validate(regex = r"^\\w{1,30}$")'), A, "R12:neighbour:regex-within-size-limit")
        add(decl("T", "String", "validate(regex = RX)", pre="static RX: ::std::sync::LazyLock<::regex::Regex> = ::std::sync::LazyLock::new(|| ::regex::Regex::new(\"a\").unwrap());\n"), A, "R12:neighbour:static-path")
        add(decl("T", "String", "validate(regex = 5)"), R, "R12:regex-not-a-string-or-path")
        # the same rule in every position among sibling validators (a check that only looks at the first / last item must not pass)
        for others_before, others_after in ((["not_empty"], []), ([], ["not_empty"]), (["len_char_min = 1", "len_char_max = 9"], []), (["len_char_min = 1"], ["len_char_max = 9"]),
                                            (["predicate = |s| true"], ["not_empty"])):
            items = others_before + ['regex = "^[a-z"'] + others_after
            add(decl("T", "String", "validate(%s)" % ", ".join(items)), R, "R12:invalid-regex-literal:position-%d-of-%d" % (len(others_before) + 1, len(items)))
            items = others_before + ['regex = "^[a-z]+$"'] + others_after
            add(decl("T", "String", "validate(%s)" % ", ".join(items)), A, "R12:neighbour:position-%d-of-%d" % (len(others_before) + 1, len(items)))
    else:
        add(decl("T", "String", 'validate(regex = "^a+$")'), R, "R13:regex-without-feature")
    # R13 feature-gated flags
    if "new_unchecked" in features:
        add(decl("T", "i32", "new_unchecked, validate(greater = 0)") + "\npub fn f() -> T { unsafe { T::new_unchecked(-1) } }", A, "R13:new_unchecked-with-feature")
        add(decl("T", "Vec<X>", "new_unchecked, validate(predicate = |v| !v.is_empty())", generics="<X>") + "\npub fn f() -> T<u8> { unsafe { T::new_unchecked(vec![]) } }", A, "R13:new_unchecked-generic")
    else:
        add(decl("T", "i32", "new_unchecked, validate(greater = 0)"), R, "R13:new_unchecked-without-feature")
    # R14 input shape
    add("use nutype::nutype;\n#[nutype(derive(Debug))]\npub struct T();", R, "R14:empty-tuple-struct")
    add("use nutype::nutype;\n#[nutype(derive(Debug))]\npub struct T { x: i32 }", R, "R14:named-field-struct")
    add("use nutype::nutype;\n#[nutype(derive(Debug))]\npub struct T;", R, "R14:unit-struct")
    add("use nutype::nutype;\n#[nutype(derive(Debug))]\npub enum T { A(i32) }", R, "R14:enum")
    add("use nutype::nutype;\n#[nutype(derive(Debug))]\npub struct T(i32, i32);", U, "R14:two-fields")
    # const_fn
    add(decl("T", "i32", "const_fn, validate(greater = 0)") + "\npub const K: Result<T, TError> = T::try_new(5);", A, "const_fn:int")
    add(decl("T", "f64", "const_fn, sanitize(with = cl), validate(finite)", pre="const fn cl(x: f64) -> f64 { x }\n") + "\npub const K: Result<T, TError> = T::try_new(5.0);", A, "const_fn:float-with-const-sanitizer")
    add(decl("T", "String", "const_fn"), U, "const_fn:string")


def names(vb: VB, features, group):
    """hostile type and type-parameter names (names generated code also uses)"""
    full = "serde" in features
    ser = ", Serialize, Deserialize" if full else ""
    for nm in ["D", "S", "DE", "T", "E", "H", "V", "Value", "Error", "Inner", "Visitor", "Self_", "F", "U", "__Visitor", "Marker", "TT", "Display", "Debug2"]:
        exp = A
        if nm in ("Display", "__Visitor"):
            exp = U   # shadows a trait name the generated code needs / squats in the macro's own double-underscore namespace
        body = decl(nm, "i32", "validate(greater = 0), derive(Debug, Clone, PartialEq, Eq, PartialOrd, Ord, Hash, FromStr, TryFrom, Into, AsRef, Deref, Borrow, Display%s)" % ser)
        vb.add(body, exp, "names:type:" + nm, group=group)
        body = decl(nm, "String", "sanitize(trim), derive(Debug, Clone, PartialEq, FromStr, From, Into, AsRef, Deref, Borrow, Display%s)" % ser)
        vb.add(body, exp, "names:type-string:" + nm, group=group)
    for p in ["D", "S", "DE", "T", "E", "H", "V", "F", "U", "I"]:
        for inner, bounds in (("Vec<%s>" % p, ""), (p, ": Ord + Copy"), ("Vec<%s>" % p, ": ::core::fmt::Debug + Clone")):
            der = "Debug, Clone, PartialEq, AsRef, Deref, Borrow%s" % ser
            if inner != p:
                der += ", Into, TryFrom, IntoIterator"
            body = decl("W", inner, "validate(predicate = |v| true), derive(%s)" % der, generics="<%s%s>" % (p, bounds))
            vb.add(body, A, "names:type-param:%s:%s%s" % (p, inner, bounds), group=group)
    # items of the declaring module that shadow prelude names (the generated module starts with `use super::*`): the expansion must not
    # pick them up. Expectation A_SCOPE is patched below per item after triage on the pinned tree.
    arb = ", Arbitrary" if "arbitrary" in features else ""
    shadows = [("Result-alias", "pub type Result<T> = ::core::result::Result<T, ()>;"), ("Option-alias", "pub type Option<T> = ::core::option::Option<(T, T)>;"),
               ("Ok-fn", "#[allow(non_snake_case)] pub fn Ok() {}"), ("Err-fn", "#[allow(non_snake_case)] pub fn Err() {}"), ("Some-fn", "#[allow(non_snake_case)] pub fn Some() {}"),
               ("None-const", "#[allow(non_upper_case_globals)] pub const None: u8 = 0;"),
               ("String-struct", "pub struct String;"), ("Vec-struct", "pub struct Vec;"), ("Box-struct", "pub struct Box;"), ("From-trait", "pub trait From {}"), ("Into-trait", "pub trait Into {}"),
               ("TryFrom-trait", "pub trait TryFrom {}"), ("Default-trait", "pub trait Default {}"), ("Clone-trait", "pub trait Clone {}"), ("Ord-trait", "pub trait Ord {}"),
               ("core-mod", "pub mod core {}"), ("std-mod", "pub mod std {}"), ("serde-mod", "pub mod serde {}"), ("arbitrary-mod", "pub mod arbitrary {}"), ("regex-mod", "pub mod regex {}"),
               ("Self-like-Error", "pub struct Error;"), ("Ordering-enum", "pub enum Ordering { Less }"), ("str-alias", "#[allow(non_camel_case_types)] pub type str2 = u8;"),
               ("format-macro", "#[allow(unused_macros)] macro_rules! format { () => {} }"), ("write-macro", "#[allow(unused_macros)] macro_rules! write { () => {} }"),
               ("panic-macro", "#[allow(unused_macros)] macro_rules! panic { () => {} }"), ("stringify-macro", "#[allow(unused_macros)] macro_rules! stringify { () => {} }"),
               ("matches-macro", "#[allow(unused_macros)] macro_rules! matches { () => {} }"), ("vec-macro", "#[allow(unused_macros)] macro_rules! vec { () => {} }"),
               ("Infallible-struct", "pub struct Infallible;"), ("Formatter-struct", "pub struct Formatter;"), ("FromStr-trait", "pub trait FromStr {}"), ("Display-trait-2", "pub trait ToString {}"),
               ("Iterator-trait", "pub trait IntoIterator {}"), ("Deserialize-trait", "pub trait Deserialize {}"), ("Serialize-trait", "pub trait Serialize {}"), ("Visitor-trait", "pub trait Visitor {}"),
               ("Regex-struct", "pub struct Regex;"), ("LazyLock-struct", "pub struct LazyLock;"), ("Unstructured-struct", "pub struct Unstructured;")]
    # triaged on the pinned tree: the expansion names these unqualified (`Ok`, `Err`, `Some`, `None`, `Option`, `Default`, `Into`, `core::..`, `write!`, `panic!`,
    # `stringify!`), nothing documents macro hygiene, and such items are not idiomatic in a declaring module -> UNSPECIFIED (Appendix A). Everything else the
    # pinned tree survives (among them the idiomatic `type Result<T> = ..` alias and an `Error` type) is MUST_ACCEPT.
    unspec = {"Default-trait", "Err-fn", "Into-trait", "None-const", "Ok-fn", "Option-alias", "Some-fn", "core-mod", "panic-macro", "stringify-macro", "write-macro"}
    for (nm, item) in shadows:
        exp = U if nm in unspec else A
        for fam, body in (("int", decl("T", "i32", "validate(greater = 0, less = 100), derive(Debug, Clone, Copy, PartialEq, Eq, PartialOrd, Ord, Hash, FromStr, TryFrom, Into, AsRef, Deref, Borrow, Display%s%s), default = 5, derive_unsafe()" % (ser, arb), pre=item + "\n")),
                          ("float", decl("T", "f64", "validate(finite, greater_or_equal = 0.0, less = 100.0), derive(Debug, Clone, Copy, PartialEq, Eq, PartialOrd, Ord, FromStr, TryFrom, Into, AsRef, Deref, Borrow, Display, Default%s%s), default = 5.0" % (ser, arb), pre=item + "\n")),
                          ("string", decl("T", "String", "sanitize(trim, lowercase), validate(not_empty, len_char_max = 10%s), derive(Debug, Clone, PartialEq, Eq, PartialOrd, Ord, Hash, FromStr, TryFrom, Into, AsRef, Deref, Borrow, Display, Default%s%s), default = \"x\"" % (", regex = \"^[a-z]*$\"" if "regex" in features else "", ser, arb if "regex" not in features else ""), pre=item + "\n")),
                          ("any", decl("T", "::std::vec::Vec<X>", "sanitize(with = |v| v), validate(predicate = |v| !v.is_empty()), derive(Debug, Clone, PartialEq, Eq, PartialOrd, Ord, Hash, TryFrom, Into, AsRef, Deref, Borrow, IntoIterator%s)" % ser, pre=item + "\n", generics="<X: ::core::cmp::Ord + ::core::clone::Clone>"))):
            body = body.replace(", derive_unsafe()", "")
            if fam == "string" and nm == "String-struct":
                continue
            if fam == "int":
                body = body.replace("Display" + ser + arb + ")", "Display, Default" + ser + arb + ")")
            vb.add(body, exp, "scope:%s:%s" % (nm, fam), group=group)
    # the user spells, on a type parameter, the very trait the derive also needs as a bound
    for (bound, der, inner) in (("::core::str::FromStr", "FromStr", "X"), ("::core::fmt::Display", "Display", "X"), ("::core::fmt::Debug", "Debug", "Vec<X>"),
                                ("Clone", "Clone", "Vec<X>"), ("PartialEq", "PartialEq", "Vec<X>"), ("::core::hash::Hash", "Hash", "Vec<X>"), ("Default", "Debug", "X")):
        vb.add(decl("W", inner, "derive(%s)" % der, generics="<X: %s>" % bound), A, "generic:user-bound-equals-derive-bound:%s" % der, group=group)
    if full:
        vb.add(decl("W", "Vec<X>", "derive(Serialize)", generics="<X: ::serde::Serialize>"), A, "generic:user-bound-equals-derive-bound:Serialize", group=group)
        vb.add(decl("W", "Vec<X>", "derive(Deserialize)", generics="<X: ::serde::de::DeserializeOwned>"), U, "generic:user-bound-equals-derive-bound:Deserialize(HRTB ambiguity E0283, as with serde's own derive)", group=group)
    if "arbitrary" in features:
        vb.add(decl("W", "Vec<X>", "derive(Arbitrary)", generics="<X: for<'x> ::arbitrary::Arbitrary<'x>>"), U, "generic:user-bound-equals-derive-bound:Arbitrary", group=group)
    # generic newtypes with bounds x each derive (one per case so a single failing impl is attributable)
    gder = ["Debug", "Clone", "PartialEq", "Eq", "PartialOrd", "Ord", "Hash", "AsRef", "Deref", "Borrow", "Into", "From", "TryFrom", "Default", "IntoIterator", "Display", "FromStr"]
    if full:
        gder += ["Serialize", "Deserialize"]
    if "arbitrary" in features:
        gder += ["Arbitrary"]
    for t in gder:
        for (inner, gen, has_val) in (("Vec<X>", "<X: Ord + Clone>", False), ("Vec<X>", "<X: Ord + Clone>", True), ("::std::borrow::Cow<'a, str>", "<'a>", True)):
            der = [t] + PREREQ.get(t, [])
            if t in ("Display", "FromStr") and inner.startswith("Vec"):
                continue
            if t in ("IntoIterator", "Default", "FromStr", "Arbitrary") and inner.startswith("::std::borrow"):
                continue
            if t == "From" and has_val:
                continue
            if t == "Arbitrary" and has_val:
                continue
            va = "validate(predicate = |v| !v.is_empty()), " if has_val else ""
            df = ", default = vec![]" if t == "Default" and inner.startswith("Vec") else ""
            if t == "Default" and has_val:
                continue
            body = decl("W", inner, "%sderive(%s)%s" % (va, ", ".join(der), df), generics=gen)
            vb.add(body, A, "generic:%s:%s:%s" % (t, inner, "validated" if has_val else "plain"), group=group)


def layouts(vb: VB, features, group):
    pre = "const K: i32 = 10;\n"
    blocks = ["sanitize(with = |x| x)", "validate(greater = 1, less = K)", "derive(Debug, Default)", "default = 5", "const_fn"]
    for perm in itertools.permutations(blocks):
        if hash(perm) % 5 != 0:
            pass
    perms = list(itertools.permutations(blocks))[::7]
    for p in perms:
        b = [x for x in p if x != "const_fn"]   # const_fn + closures is unspecified
        vb.add(decl("T", "i32", ", ".join(b), pre=pre), A, "layout:block-order", group=group)
        vb.add(decl("T", "i32", ",\n    ".join(b) + ",", pre=pre), A, "layout:trailing-comma", group=group)
    vb.add(decl("T", "i32", "validate(greater = 1,), derive(Debug,), sanitize(with = |x| x,),"), A, "layout:inner-trailing-commas", group=group)
    vb.add(decl("T", "i32", "validate(greater = 1) derive(Debug)"), R, "layout:missing-comma", group=group)
    vb.add(decl("T", "i32", ", derive(Debug)"), R, "layout:leading-comma", group=group)
    vb.add(decl("T", "i32", ""), A, "layout:empty-attribute-list", group=group)
    vb.add(decl("T", "i32", None), A, "layout:bare-attribute", group=group)


def random_tail(vb: VB, features, group, seed, n):
    """random declarations from the grammar with the reference predicate's verdict"""
    rng = random.Random("c08:%s:%s" % (seed, group))
    for _ in range(n):
        fam = rng.choice(list(FAMILIES))
        f = FAMILIES[fam]
        sans, vals, reasons = [], [], []
        exp = A
        # sanitizers
        if fam == "string":
            pool = ["trim", "lowercase", "uppercase", "with = |s| s"]
            k = rng.choice([0, 0, 1, 2, 3])
            sans = [rng.choice(pool) for _ in range(k)]
            kinds = [s.split(" ")[0] for s in sans]
            if len(set(kinds)) != len(kinds):
                exp, _ = R, reasons.append("duplicate sanitizer")
            if "lowercase" in kinds and "uppercase" in kinds:
                exp, _ = R, reasons.append("lowercase+uppercase")
        else:
            k = rng.choice([0, 0, 1, 2])
            sans = [f["san"]] * k
            if k == 2:
                exp, _ = R, reasons.append("duplicate sanitizer")
        # validators
        validation = "none"
        if fam == "string":
            pool = ["not_empty", "len_char_min = %d", "len_char_max = %d", "predicate = |s| true"]
            k = rng.choice([0, 1, 2, 3])
            chosen = [rng.choice(pool) for _ in range(k)]
            mn = mx = None
            out = []
            for c in chosen:
                if "%d" in c:
                    v = rng.randint(0, 6)
                    if "min" in c:
                        mn = v if mn is None else mn
                    else:
                        mx = v if mx is None else mx
                    c = c % v
                out.append(c)
            kinds = [c.split(" ")[0] for c in out]
            if len(set(kinds)) != len(kinds):
                exp, _ = R, reasons.append("duplicate validator")
            # first occurrences decide the comparison; only meaningful without duplicates
            if mn is not None and mx is not None and mn > mx and len(set(kinds)) == len(kinds):
                exp, _ = R, reasons.append("len_char_min > len_char_max")
            vals = out
        elif fam in ("int", "float"):
            lit = (lambda v: str(v)) if fam == "int" else (lambda v: "%d.0" % v)
            pool = ["greater", "greater_or_equal", "less", "less_or_equal", "predicate"] + (["finite"] if fam == "float" else [])
            k = rng.choice([0, 1, 2, 2, 3])
            kinds = [rng.choice(pool) for _ in range(k)]
            bounds = {}
            out = []
            for kd in kinds:
                if kd == "predicate":
                    out.append("predicate = %s" % f["pred"])
                elif kd == "finite":
                    out.append("finite")
                else:
                    v = rng.randint(-4, 4)
                    bounds.setdefault(kd, v)
                    out.append("%s = %s" % (kd, lit(v)))
            if len(set(kinds)) != len(kinds):
                exp, _ = R, reasons.append("duplicate validator")
            else:
                if "greater" in bounds and "greater_or_equal" in bounds:
                    exp, _ = R, reasons.append("two lower bounds")
                if "less" in bounds and "less_or_equal" in bounds:
                    exp, _ = R, reasons.append("two upper bounds")
                lo = [(kd, bounds[kd]) for kd in ("greater", "greater_or_equal") if kd in bounds]
                hi = [(kd, bounds[kd]) for kd in ("less", "less_or_equal") if kd in bounds]
                if len(lo) == 1 and len(hi) == 1:
                    (lk, lv), (uk, uv) = lo[0], hi[0]
                    excl = lk == "greater" or uk == "less"
                    if lv > uv or (lv == uv and excl):
                        exp, _ = R, reasons.append("bounds exclude each other")
                    elif fam == "int" and lk == "greater" and uk == "less" and uv - lv == 1 and exp == A:
                        exp = U
            vals = out
        else:
            k = rng.choice([0, 1, 2])
            vals = ["predicate = %s" % f["pred"]] * k
            if k == 2:
                exp, _ = R, reasons.append("duplicate validator")
        if vals:
            validation = "finite" if "finite" in vals else "standard"
        # derives
        k = rng.choice([0, 1, 2, 3, 4])
        traits = rng.sample(ALL_TRAITS, k)
        der = []
        for t in traits:
            for x in [t] + PREREQ.get(t, []):
                if x not in der:
                    der.append(x)
        for t in der:
            e, why = reference_trait_verdict(fam, t, validation, features)
            if e == R:
                exp, _ = R, reasons.append("%s: %s" % (t, why))
            elif e == U and exp == A:
                exp = U
        if "From" in der and "TryFrom" in der:
            exp, _ = R, reasons.append("From+TryFrom")
        if "Arbitrary" in der and any(v.startswith("predicate") or v.startswith("regex") for v in vals) and exp == A:
            exp = U
        if "Arbitrary" in der and fam in ("int", "float") and sans and vals and exp == A:
            exp = U
        if "Arbitrary" in der and fam == "string" and any(s.startswith("with") for s in sans) and exp == A:
            exp = U
        has_default = "Default" in der and rng.random() < 0.8
        if "Default" in der and not has_default:
            exp, _ = R, reasons.append("Default without default")
        parts = []
        if sans:
            parts.append("sanitize(%s)" % ", ".join(sans))
        if vals:
            parts.append("validate(%s)" % ", ".join(vals))
        if der:
            parts.append("derive(%s)" % ", ".join(der))
        if has_default:
            parts.append("default = %s" % f["default"])
        rng.shuffle(parts)
        vb.add(decl("T", f["inner"], ", ".join(parts)), exp, "random:" + ("; ".join(reasons) if reasons else "well-formed"), group=group)


def build(tier, seed, features, group):
    vb = VB()
    matrix(vb, features, group, tier)
    rules(vb, features, group)
    names(vb, features, group)
    layouts(vb, features, group)
    random_tail(vb, features, group, seed, 250 if tier == "quick" else 1500)
    return vb.cases


# ---- generated tests (C08 last sentence) ---------------------------------------------------------

def generated_tests_cases():
    """(module text, type name, test name, must_fail)"""
    out = []
    n = 0

    def add(inner, attrs, pre, test, must_fail):
        nonlocal n
        n += 1
        name = "G%03d" % n
        out.append(("pub mod g%03d {\n    use nutype::nutype;\n    %s\n    #[nutype(%s)]\n    pub struct %s(%s);\n}\n" % (n, pre.replace("\n", "\n    "), attrs, name, inner), name, test, must_fail))

    T1 = "should_have_consistent_lower_and_upper_boundaries"
    T2 = "should_have_consistent_len_char_boundaries"
    T3 = "should_have_valid_default_value"
    for ty, lit in (("i32", lambda v: str(v)), ("u8", lambda v: str(v)), ("f64", lambda v: "%d.0" % v), ("i128", lambda v: str(v)), ("f32", lambda v: "%d.5" % v)):
        for lk, uk in itertools.product(["greater", "greater_or_equal"], ["less", "less_or_equal"]):
            for lo, hi in ((5, 3), (5, 5), (3, 5)):
                excl = lk == "greater" or uk == "less"
                fail = lo > hi or (lo == hi and excl)
                pre = "const LO: %s = %s; const HI: %s = %s;" % (ty, lit(lo), ty, lit(hi))
                add(ty, "validate(%s = LO, %s = HI)" % (lk, uk), pre, T1, fail)
        # mixed: one literal, one expression
        add(ty, "validate(greater_or_equal = %s, less_or_equal = HI)" % lit(9), "const HI: %s = %s;" % (ty, lit(2)), T1, True)
        add(ty, "validate(less_or_equal = %s::MAX, greater_or_equal = LO)" % ty, "const LO: %s = %s;" % (ty, lit(2)), T1, False)
        # literal spellings the macro treats as expressions (hex, suffixed, parenthesised) fall to the generated test as well
        if not ty.startswith("f"):
            add(ty, "validate(greater_or_equal = 5, less_or_equal = 0x3)", "", T1, True)
            add(ty, "validate(greater_or_equal = (1), less_or_equal = 9%s)" % ty, "", T1, False)
        else:
            add(ty, "validate(greater_or_equal = 5.0, less_or_equal = (3.0))", "", T1, True)
    spell = [("LOW as i32", "HIGH", "const LOW: i64 = 1; const HIGH: i32 = 9;"), ("LOW", "HIGH as i32", "const LOW: i32 = 1; const HIGH: u8 = 9;"), ("-K", "K", "const K: i32 = 9;"),
             ("K << 1", "K << 3", "const K: i32 = 1;"), ("A | B", "i32::MAX", "const A: i32 = 1; const B: i32 = 2;"), ("m::LOW", "m::HIGH", "mod m { pub const LOW: i32 = 1; pub const HIGH: i32 = 9; }"),
             ("lo()", "hi()", "const fn lo() -> i32 { 1 } const fn hi() -> i32 { 9 }"), ("if F { 1 } else { 2 }", "K", "const F: bool = true; const K: i32 = 9;"), ("(LOW)", "{ HIGH }", "const LOW: i32 = 1; const HIGH: i32 = 9;")]
    for (lo_e, hi_e, pre) in spell:
        for lk, uk in itertools.product(["greater", "greater_or_equal"], ["less", "less_or_equal"]):
            add("i32", "validate(%s = %s, %s = %s)" % (lk, lo_e, uk, hi_e), pre, T1, False)
            add("i32", "validate(%s = %s, %s = %s)" % (uk, hi_e, lk, lo_e), pre, T1, False)
    for mn, mx in ((5, 3), (3, 3), (3, 5), (0, 0)):
        add("String", "validate(len_char_min = MN, len_char_max = MX)", "const MN: usize = %d; const MX: usize = %d;" % (mn, mx), T2, mn > mx)
        add("String", "validate(len_char_max = MX, len_char_min = %d)" % mn, "const MX: usize = %d;" % mx, T2, mn > mx)
    # defaults: valid / invalid / valid only after sanitising, literal and const
    add("i32", "validate(greater = 0), derive(Default), default = D", "const D: i32 = 5;", T3, False)
    add("i32", "validate(greater = 0), derive(Default), default = D", "const D: i32 = -5;", T3, True)
    add("i32", "validate(greater = 0), derive(Default), default = -1", "", T3, True)
    add("i32", "sanitize(with = |x: i32| x.abs()), validate(greater = 0), derive(Default), default = -5", "", T3, False)
    add("f64", "validate(finite), derive(Default), default = f64::NAN", "", T3, True)
    add("f64", "validate(finite, less = 1.0), derive(Default), default = 0.5", "", T3, False)
    add("String", "sanitize(trim), validate(not_empty), derive(Default), default = \"  \"", "", T3, True)
    add("String", "sanitize(trim), validate(len_char_max = 3), derive(Default), default = \"  Bob  \"", "", T3, False)
    add("String", "validate(len_char_max = 3), derive(Default), default = \"  Bob  \"", "", T3, True)
    # custom `with`/`error` validation: the default-value test must be planted there too
    cerr = ("#[derive(Debug)] pub enum E { Bad }\nimpl ::core::fmt::Display for E { fn fmt(&self, f: &mut ::core::fmt::Formatter<'_>) -> ::core::fmt::Result { write!(f, \"bad\") } }\n"
            "impl ::std::error::Error for E {}\n")
    add("i32", "validate(with = chk, error = E), derive(Default), default = -5", cerr + "fn chk(x: &i32) -> Result<(), E> { if *x > 0 { Ok(()) } else { Err(E::Bad) } }", T3, True)
    add("i32", "validate(with = chk, error = E), derive(Default), default = 5", cerr + "fn chk(x: &i32) -> Result<(), E> { if *x > 0 { Ok(()) } else { Err(E::Bad) } }", T3, False)
    add("f64", "validate(with = chk, error = E), derive(Default), default = f64::NAN", cerr + "fn chk(x: &f64) -> Result<(), E> { if *x >= 0.0 { Ok(()) } else { Err(E::Bad) } }", T3, True)
    add("f32", "validate(with = chk, error = E), derive(Default), default = 1.5", cerr + "fn chk(x: &f32) -> Result<(), E> { if *x >= 0.0 { Ok(()) } else { Err(E::Bad) } }", T3, False)
    add("String", "validate(with = chk, error = E), derive(Default), default = \"\"", cerr + "fn chk(x: &str) -> Result<(), E> { if !x.is_empty() { Ok(()) } else { Err(E::Bad) } }", T3, True)
    add("Vec<i32>", "validate(with = chk, error = E), derive(Default), default = vec![]", cerr + "fn chk(x: &Vec<i32>) -> Result<(), E> { if !x.is_empty() { Ok(()) } else { Err(E::Bad) } }", T3, True)
    add("Vec<i32>", "validate(predicate = |v| !v.is_empty()), derive(Default), default = vec![]", "", T3, True)
    add("Vec<i32>", "validate(predicate = |v| !v.is_empty()), derive(Default), default = vec![1]", "", T3, False)
    return out
