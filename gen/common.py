"""Shared helpers: paths, process running, deterministic file writing."""
import hashlib, json, os, subprocess, sys, time

VERIF = os.path.dirname(os.path.dirname(os.path.abspath(__file__)))
REPO = os.environ.get("VERIF_REPO", "/repo")
WORK = os.path.join(VERIF, "work")
EVIDENCE_DIR = os.path.join(VERIF, "evidence")
if os.path.realpath(REPO) != "/repo":
    # self-test against a mutated scratch copy: never touch the real build cache or the committed evidence
    import hashlib as _h
    WORK = os.path.join(VERIF, "work", "mut-" + _h.sha256(os.path.realpath(REPO).encode()).hexdigest()[:6])
    EVIDENCE_DIR = os.path.join(WORK, "evidence")
GENERATOR_VERSION = 1

ENV = dict(os.environ)
ENV["CARGO_NET_OFFLINE"] = "true"
ENV.setdefault("CARGO_TERM_COLOR", "never")
# a stray RUSTFLAGS would defeat build sharing between checks
ENV.pop("RUSTFLAGS", None)


def write_if_changed(path, text):
    """Keep mtimes stable so cargo's fingerprinting can reuse earlier builds."""
    os.makedirs(os.path.dirname(path), exist_ok=True)
    if os.path.exists(path):
        with open(path, "r", encoding="utf-8") as f:
            if f.read() == text:
                return False
    with open(path, "w", encoding="utf-8") as f:
        f.write(text)
    return True


def run(cmd, cwd=None, timeout=None, env=None, capture=True):
    t0 = time.time()
    try:
        p = subprocess.run(cmd, cwd=cwd, env=env or ENV, timeout=timeout,
                           stdout=subprocess.PIPE if capture else None,
                           stderr=subprocess.PIPE if capture else None)
        return p.returncode, (p.stdout or b"").decode("utf-8", "replace"), (p.stderr or b"").decode("utf-8", "replace"), time.time() - t0
    except subprocess.TimeoutExpired as e:
        return 124, (e.stdout or b"").decode("utf-8", "replace"), (e.stderr or b"").decode("utf-8", "replace") + "\nTIMEOUT", time.time() - t0


def sha8(text):
    return hashlib.sha256(text.encode("utf-8")).hexdigest()[:8]


def rust_str(s):
    """Rust string literal for arbitrary text."""
    out = ['"']
    for ch in s:
        o = ord(ch)
        if ch == '"':
            out.append('\\"')
        elif ch == "\\":
            out.append("\\\\")
        elif ch == "\n":
            out.append("\\n")
        elif ch == "\t":
            out.append("\\t")
        elif ch == "\r":
            out.append("\\r")
        elif o < 0x20 or o == 0x7F or o > 0x7E:
            out.append("\\u{%x}" % o)
        else:
            out.append(ch)
    out.append('"')
    return "".join(out)


class Inconclusive(Exception):
    pass
