"""C02 spelling / layout corpus: one declaration per (syntactic form x family x validator kind).
The denoted value of every spelling is computed here, in Python; accepted declarations are then held to it."""
import itertools
from fractions import Fraction
from .model import *
from .lib import *
from .corpus_ctor import Builder, float_denote, rust_str
import math

KINDS = ["greater", "greater_or_equal", "less", "less_or_equal"]


def int_spellings(ty):
    """(class, attribute text, denoted value, support items)"""
    lo, hi = int_range(ty)
    signed = lo < 0
    k = 10
    c = [f"const K: {ty} = {k};"]
    out = [
        ("literal", "10", 10, []), ("literal-underscore", "1_0", 10, []), ("literal-underscore-big", "1_00", 100, []),
        ("literal-suffixed", f"10{ty}", 10, []), ("literal-hex", "0x0A", 10, []), ("literal-binary", "0b1010", 10, []), ("literal-octal", "0o12", 10, []),
        ("const", "K", k, c), ("paren-const", "(K)", k, c), ("double-paren", "((K))", k, c), ("block", "{ K }", k, c),
        ("const-plus", "K + 1", 11, c), ("const-minus", "K - 1", 9, c), ("literal-led-plus", "1 + K", 11, c), ("literal-led-minus", "30 - K", 20, c),
        ("literal-led-shift", "1 << 4", 16, []), ("const-shift", "K << 2", 40, c), ("const-shr", "K >> 1", 5, c), ("bitor", "A | B", 5 | 8, [f"const A: {ty} = 5; const B: {ty} = 8;"]),
        ("bitand", "K & 6", 10 & 6, c), ("bitxor", "K ^ 3", 10 ^ 3, c), ("mul", "K * 2", 20, c), ("div", "K / 3", 3, c), ("rem", "K % 7", 3, c),
        ("literal-led-mul", "2 * K", 20, c), ("type-min", f"{ty}::MIN", lo, []), ("type-max", f"{ty}::MAX", hi, []), ("type-max-minus", f"{ty}::MAX - 1", hi - 1, []),
        ("type-max-div", f"{ty}::MAX / 2", hi // 2, []), ("fn-call", "bound_fn()", 12, [f"const fn bound_fn() -> {ty} {{ 12 }}"]), ("fn-call-named-f", "f()", 12, [f"const fn f() -> {ty} {{ 12 }}"]), ("fn-call-arg", "g(3, 4)", 7, [f"const fn g(a: {ty}, b: {ty}) -> {ty} {{ a + b }}"]),
        ("module-path", "m::K", 13, [f"mod m {{ pub const K: {ty} = 13; }}"]), ("assoc-const", "Cfg::LIMIT", 14, [f"struct Cfg; impl Cfg {{ const LIMIT: {ty} = 14; }}"]),
        # user constants named like the type's own limits / like items the generated code uses
        ("const-named-MAX", "MAX", 30, [f"const MAX: {ty} = 30;"]), ("const-named-MIN", "MIN", 3, [f"const MIN: {ty} = 3;"]),
        ("module-const-named-MAX", "limits::MAX", 31, [f"mod limits {{ pub const MAX: {ty} = 31; pub const MIN: {ty} = 2; }}"]),
        ("module-const-named-MIN", "limits::MIN", 2, [f"mod limits {{ pub const MAX: {ty} = 31; pub const MIN: {ty} = 2; }}"]),
        ("assoc-const-named-MAX", "Cfg::MAX", 32, [f"struct Cfg; impl Cfg {{ const MAX: {ty} = 32; const MIN: {ty} = 1; }}"]),
        ("assoc-const-named-MIN", "Cfg::MIN", 1, [f"struct Cfg; impl Cfg {{ const MAX: {ty} = 32; const MIN: {ty} = 1; }}"]),
        ("const-named-EPSILON-like", "DEFAULT", 33, [f"const DEFAULT: {ty} = 33;"]), ("const-named-like-type", "I32", 34, [f"const I32: {ty} = 34;"]),
        ("other-type-MAX", "u8::MAX as " + ty if ty != "i8" else "i8::MAX", 255 if ty != "i8" else 127, []),
        ("cast", f"S as {ty}", 15, ["const S: u8 = 15;"]), ("if-expr", "if FLAG { 1 } else { 21 }", 21, ["const FLAG: bool = false;"]),
        ("index", "[4, 5, 6][1]", 5, []), ("tuple-field", "P.1", 17, [f"const P: (u8, {ty}) = (0, 17);"]), ("method-call", f"\"abcd\".len() as {ty}", 4, []),
        ("match-expr", "match 3u8 { 3 => 33, _ => 0 }", 33, []), ("min-plus-literal-led", f"2 + {ty}::MIN", lo + 2, []),
    ]
    if signed:
        out += [("negative-literal", "-10", -10, []), ("negative-literal-spaced", "- 10", -10, []), ("negated-const", "-K", -k, c), ("negated-paren", "-(K)", -k, c),
                ("paren-negated", "(-K)", -k, c), ("negated-minus", "-K - 1", -11, c), ("negative-literal-plus-const", "-10 + K", 0, c), ("double-negation", "--K", k, c),
                ("negated-fn", "-bound_fn()", -12, [f"const fn bound_fn() -> {ty} {{ 12 }}"]), ("not", "!K", ~k, c), ("negative-literal-minus-literal", "-3 - 4", -7, []),
                ("abs-call", "(-20 as " + ty + ").abs()", 20, []), ("double-negated-literal-paren", "-(-5)", 5, []), ("double-negated-literal-spaced", "- -5", 5, []),
                ("triple-negated-literal", "-(-(-5))", -5, []), ("negated-paren-literal", "-(5)", -5, []), ("paren-negative-literal", "(-5)", -5, []), ("paren-literal", "(5)", 5, [])]
    else:
        out += [("not", "!K", hi - k, c)]
    return out


def float_spellings(ty):
    F = Fraction
    c = [f"const K: {ty} = 2.5;"]
    T = ty
    out = [
        ("literal", "2.5", F(5, 2), []), ("literal-underscore", "1_0.5", F(21, 2), []), ("literal-exp", "1e3", F(1000), []), ("literal-exp-neg", "2.5e-3", F(25, 10000), []),
        # long literals next to an f32 rounding midpoint (1 + 2^-24): rounded once, straight to the inner type, as rustc does for a typed literal
        ("literal-long-below-midpoint", "1.00000005960464477", F(100000005960464477, 10 ** 17), []),
        ("literal-long-above-midpoint", "1.000000059604644775390626", F(1000000059604644775390626, 10 ** 24), []),
        ("literal-long-at-f64-resolution", "0.30000000000000004", F(30000000000000004, 10 ** 17), []),
        ("literal-long-many-digits", "2.50000000000000000000000000000000000001", F(5, 2) + F(1, 10 ** 38), []),
        ("literal-int", "10", F(10), []), ("literal-trailing-dot", "3.", F(3), []), ("literal-suffixed", f"2.5{ty}", F(5, 2), []), ("literal-int-suffixed", f"3{ty}", F(3), []),
        ("negative-literal", "-2.5", F(-5, 2), []), ("negative-int-literal", "-10", F(-10), []), ("negative-literal-spaced", "- 2.5", F(-5, 2), []),
        ("const", "K", F(5, 2), c), ("negated-const", "-K", F(-5, 2), c), ("paren-const", "(K)", F(5, 2), c), ("paren-negated", "(-K)", F(-5, 2), c), ("negated-paren", "-(K)", F(-5, 2), c),
        ("mul", "K * 2.0", F(5), c), ("literal-led-mul", "2.0 * K", F(5), c), ("div", "K / 2.0", F(5, 4), c), ("plus", "K + 0.5", F(3), c), ("literal-led-minus", "10.0 - K", F(15, 2), c),
        ("negative-literal-plus-const", "-10.0 + K", F(-15, 2), c), ("negated-minus", "-K - 1.0", F(-7, 2), c),
        ("type-max", f"{T}::MAX", "MAX", []), ("type-min", f"{T}::MIN", "MIN", []), ("negated-type-max", f"-{T}::MAX", "MIN", []), ("min-positive", f"{T}::MIN_POSITIVE", "MINPOS", []),
        ("neg-infinity", f"{T}::NEG_INFINITY", -math.inf, []), ("infinity", f"{T}::INFINITY", math.inf, []),
        ("fn-call", "bound_fn()", F(3, 2), [f"const fn bound_fn() -> {ty} {{ 1.5 }}"]), ("negated-fn", "-bound_fn()", F(-3, 2), [f"const fn bound_fn() -> {ty} {{ 1.5 }}"]),
        ("module-path", "m::K", F(7, 2), [f"mod m {{ pub const K: {ty} = 3.5; }}"]), ("cast", f"S as {ty}", F(15), ["const S: u8 = 15;"]),
        ("const-named-MAX", "MAX", F(30), [f"const MAX: {ty} = 30.0;"]), ("const-named-MIN", "MIN", F(-3), [f"const MIN: {ty} = -3.0;"]),
        ("module-const-named-MAX", "limits::MAX", F(31), [f"mod limits {{ pub const MAX: {ty} = 31.0; }}"]), ("const-named-EPSILON", "EPSILON", F(1, 2), [f"const EPSILON: {ty} = 0.5;"]),
        ("const-named-INFINITY", "INFINITY", F(9), [f"const INFINITY: {ty} = 9.0;"]), ("const-named-NAN", "NAN", F(4), [f"const NAN: {ty} = 4.0;"]),
        ("assoc-const-named-MAX", "Cfg::MAX", F(32), [f"struct Cfg; impl Cfg {{ const MAX: {ty} = 32.0; }}"]),
        ("if-expr", "if FLAG { 1.0 } else { 21.0 }", F(21), ["const FLAG: bool = false;"]), ("block", "{ K }", F(5, 2), c), ("method", "K.abs()" if False else "(K)", F(5, 2), c),
    ]
    return out


def len_spellings():
    c = ["const K: usize = 3;"]
    return [("literal", "3", 3, []), ("literal-underscore", "1_0", 10, []), ("literal-suffixed", "3usize", 3, []), ("literal-hex", "0x03", 3, []), ("const", "K", 3, c), ("paren-const", "(K)", 3, c),
            ("const-plus", "K + 1", 4, c), ("literal-led-plus", "1 + K", 4, c), ("literal-led-shift", "1 << 2", 4, []), ("type-min-plus", "usize::MIN + 2", 2, []),
            ("fn-call", "bound_fn()", 2, ["const fn bound_fn() -> usize { 2 }"]), ("method-call", "\"abc\".len()", 3, []), ("mul", "K * 2", 6, c), ("module-path", "m::N", 5, ["mod m { pub const N: usize = 5; }"]),
            ("if-expr", "if FLAG { 1 } else { 4 }", 4, ["const FLAG: bool = false;"]), ("cast", "S as usize", 2, ["const S: u8 = 2;"]),
            ("const-named-MAX", "MAX", 4, ["const MAX: usize = 4;"]), ("const-named-MIN", "MIN", 2, ["const MIN: usize = 2;"]), ("module-const-named-MAX", "limits::MAX", 5, ["mod limits { pub const MAX: usize = 5; }"])]


def build(tier, seed):
    b = Builder("x", tier, seed)
    tags = ["C01"]
    idx = 0

    def new(inner, cls):
        d = b.new(inner, tags=tags + ["sp=" + cls])
        d.unspecified = True     # rejection is always acceptable for C02
        d.derives = ["Debug"]
        return d

    # ---- integer bound spellings
    int_types = ["i32", "u8", "i64"] if tier == "quick" else ["i8", "i16", "i32", "i64", "i128", "isize", "u8", "u16", "u32", "u64", "u128", "usize"]
    for ti, ty in enumerate(int_types):
        lo, hi = int_range(ty)
        for si, (cls, text, den, sup) in enumerate(int_spellings(ty)):
            if not (lo <= den <= hi):
                continue
            for ki, kind in enumerate(KINDS):
                if (si + ki + ti) % (2 if tier == "quick" else 1) != 0 and cls not in ("negated-const", "literal-led-minus", "negative-literal-plus-const") and "named" not in cls:
                    continue
                d = new(inner_int(ty), "int:" + cls)
                d.support += sup
                d.vals.append(Vld(kind, text, den))
                # a second rule after the expression: must survive whatever the parser did with the first
                if (si + ki) % 3 == 0:
                    add_predicate(d, "*x != 77", "closure")
    # ---- bounds whose expression has another numeric type (rejected today; if ever accepted, the *written* value counts)
    other = [("u8", "const LIMIT: u16 = 300;", "LIMIT", 300), ("i32", "const LIMIT: i64 = 5_000_000_000;", "LIMIT", 5_000_000_000), ("u8", "const LIMIT: i32 = -1;", "LIMIT", -1),
             ("i8", "const LIMIT: u8 = 200;", "LIMIT", 200), ("u16", "", "70000u32", 70000), ("i64", "const LIMIT: i128 = 1 << 100;", "LIMIT", 1 << 100)]
    for (ty, sup, text, den) in other:
        for kind in KINDS:
            d = new(inner_int(ty), "int:const-of-other-integer-type")
            if sup:
                d.support.append(sup)
            d.vals.append(Vld(kind, text, den))
    # a float literal as an integer bound: `less = 2.5` means x < 2.5, i.e. x <= 2
    fl = {"less": ("less", 3), "less_or_equal": ("less_or_equal", 2), "greater": ("greater", 2), "greater_or_equal": ("greater_or_equal", 3)}
    for ty in ("i32", "u8"):
        for kind in KINDS:
            d = new(inner_int(ty), "int:float-literal-bound")
            d.vals.append(Vld(kind, "2.5", fl[kind][1]))
    # ---- float bound spellings
    for ti, ty in enumerate(FLOAT_TYPES):
        for si, (cls, text, ex, sup) in enumerate(float_spellings(ty)):
            for ki, kind in enumerate(KINDS):
                if (si + ki + ti) % (2 if tier == "quick" else 1) != 0 and cls not in ("negated-const", "literal-led-minus", "negative-literal-plus-const") and "named" not in cls and "literal-long" not in cls:
                    continue
                d = new(inner_float(ty), "float:" + cls)
                d.support += sup
                d.vals.append(Vld(kind, text, float_denote(ty, ex)))
                if (si + ki) % 3 == 0:
                    d.vals.append(Vld("finite"))
    # ---- string length spellings
    for si, (cls, text, den, sup) in enumerate(len_spellings()):
        for kind in ("len_char_min", "len_char_max"):
            d = new(inner_string(), "len:" + cls)
            d.support += sup
            d.vals.append(Vld(kind, text, den))
            if si % 2 == 0:
                d.vals.append(Vld("not_empty"))
    # both length bounds together, multi-byte probes (character counts, not bytes, on both sides)
    for (mn, mx) in ((6, 20), (2, 3), (3, 3)):
        for order in (0, 1):
            for sp in ("lit", "const"):
                d = new(inner_string(), "len:both-bounds")
                lo = Vld("len_char_min", str(mn), mn)
                hi = Vld("len_char_max", str(mx), mx)
                if sp == "const":
                    d.support.append("const MN: usize = %d; const MX: usize = %d;" % (mn, mx))
                    lo, hi = Vld("len_char_min", "MN", mn), Vld("len_char_max", "MX", mx)
                d.vals = [lo, hi] if order == 0 else [hi, lo]
                for probe in ("ééé", "éééééé", "ééééééé", "ß" * mn, "ß" * (mn - 1), "𝒳" * mx, "𝒳" * (mx + 1), "a" * mn, "日本語", "é" * mx, "é" * (mx + 1)):
                    d.tags.append("probe=" + probe)
    # regex literals that look like plain text (candidates for "fast paths"): matched as regular expressions all the same
    plain = [("^0{4}$", ["0000", "0{4}", "00000", "000"]), ("-{2,}", ["--", "-{2,}", "-", "a---b"]), ("abc", ["abc", "xabcx", "ab", "ABC"]), ("^abc$", ["abc", "xabc", "abcx"]),
             ("a.c", ["abc", "a.c", "ac", "a\nc"]), ("^a|b$", ["a", "b", "ax", "xb", "x"]), ("a{2}", ["aa", "a{2}", "a"]), ("^$", ["", " ", "a"]), ("a+", ["a", "a+", "b"]),
             ("^a?$", ["", "a", "a?", "aa"]), ("a\\.b", ["a.b", "axb", "a\\.b"]), ("(ab)", ["ab", "(ab)"]), ("[ab]", ["a", "[ab]", "c"]), ("a*", ["", "b"]), ("^.$", ["a", "ab", "ß", ""])]
    # patterns whose "equivalent" rewrites differ only on values with line breaks / at the edges (`.` does not match \n; `$` vs `\z`; leading `.*`)
    plain += [(".*@x\\.y", ["a@x.y", "l1\nb@x.y", "l1\nl2", "@x.y\n"]), (".*b$", ["ab", "a\nb", "b\n", "a\nb\n"]), ("^a.*z$", ["az", "a\nz", "a-z"]), (".+", ["", "\n", "a", "\na"]),
              ("^\\w+$", ["ab_1", "ab\n", "é", "a b"]), ("(?s).*end", ["x\nend", "end"]), ("a$", ["a", "a\n", "ba"])]
    for pat, probes in plain:
        for form in ("literal", "raw", "static"):
            d = new(inner_string(), "regex:plain-text-looking:" + form)
            esc = pat.replace("\\", "\\\\").replace('"', '\\"')
            if form == "literal":
                d.vals.append(Vld("regex", '"%s"' % esc, pat.replace("\\\\", "\\")))
            elif form == "raw":
                d.vals.append(Vld("regex", 'r"%s"' % pat.replace("\\\\", "\\"), pat.replace("\\\\", "\\")))
            else:
                d.support.append('static RX: ::std::sync::LazyLock<::regex::Regex> = ::std::sync::LazyLock::new(|| ::regex::Regex::new(%s).unwrap());' % rust_str(pat.replace("\\\\", "\\")))
                d.vals.append(Vld("regex", "RX", pat.replace("\\\\", "\\")))
            for pr in probes:
                d.tags.append("probe=" + pr.replace("\\\\", "\\"))
    # ---- regex spellings
    rx = [("literal", '"^[a-z]+$"', "^[a-z]+$", []), ("raw-literal", 'r"^\\d+$"', "^\\d+$", []), ("raw-hash-literal", 'r#"^"a+"$"#', '^"a+"$', []),
          ("escaped-literal", '"^\\\\w+\\\\s$"', "^\\w+\\s$", []), ("unicode-literal", '"^ß+$"', "^ß+$", []),
          ("static-path", "RX", "^x+$", ['static RX: ::std::sync::LazyLock<::regex::Regex> = ::std::sync::LazyLock::new(|| ::regex::Regex::new("^x+$").unwrap());']),
          ("module-static-path", "m::RX", "^y+$", ['mod m { pub static RX: ::std::sync::LazyLock<::regex::Regex> = ::std::sync::LazyLock::new(|| ::regex::Regex::new("^y+$").unwrap()); }'])]
    for cls, text, pat, sup in rx:
        for order in (0, 1):
            d = new(inner_string(), "regex:" + cls)
            d.support += sup
            d.vals.append(Vld("regex", text, pat))
            if order:
                d.vals.insert(0, Vld("len_char_max", "5", 5))
    # ---- closures vs paths for `with` / `predicate`
    clos = [
        ("closure", "closure"), ("typed-closure", "typed"), ("mut-closure", "mut"), ("path", "path"),
    ]
    for fam, inner, sbody, pbody in (("int", inner_int("i32"), "x.wrapping_add(1)", "*x % 2 == 0"), ("float", inner_float("f64"), "x.abs()", "*x < 5.0"),
                                     ("string", inner_string(), "x.replace('x', \" \")", "x.contains('a')")):
        for (cls, sp) in clos:
            d = new(inner, "with:%s:%s" % (fam, cls))
            add_with_sanitizer(d, sbody, sp)
            add_predicate(d, pbody, sp if sp != "mut" else "closure")
    # tricky closure bodies: commas, pipes, nested closures, blocks, turbofish, method paths
    tricky = [
        ("int", inner_int("i32"), "pred", "closure-with-pipe", "|x| (*x | 1) == *x", "(*x | 1) == *x", []),
        ("int", inner_int("i32"), "pred", "closure-with-comma-call", "|x| ::core::cmp::max(*x, 3) == 3", "::core::cmp::max(*x, 3) == 3", []),
        ("int", inner_int("i32"), "pred", "closure-block", "|x| { let y = *x; y > 2 }", "{ let y = *x; y > 2 }", []),
        ("int", inner_int("i32"), "pred", "nested-closure", "|x| (0..3).any(|k| k == *x)", "(0..3).any(|k| k == *x)", []),
        ("int", inner_int("i32"), "pred", "method-path", "i32::is_positive_ref", "*x > 0", ["trait R { fn is_positive_ref(&self) -> bool; } impl R for i32 { fn is_positive_ref(&self) -> bool { *self > 0 } }"]),
        ("int", inner_int("i32"), "pred", "turbofish-path", "below::<7>", "*x < 7", ["fn below<const N: i32>(x: &i32) -> bool { *x < N }"]),
        ("int", inner_int("i32"), "pred", "qualified-path", "self::helpers::small", "*x < 50", ["mod helpers { pub fn small(x: &i32) -> bool { *x < 50 } }"]),
        ("int", inner_int("i32"), "san", "closure-with-pipe", "|x| x | 1", "x | 1", []),
        ("int", inner_int("i32"), "san", "closure-tuple-comma", "|x| (x, 0).0.wrapping_mul(2)", "(x, 0).0.wrapping_mul(2)", []),
        ("int", inner_int("i32"), "san", "closure-if", "|x| if x < 0 { 0 } else { x }", "if x < 0 { 0 } else { x }", []),
        ("string", inner_string(), "pred", "closure-with-comma-call", "|s| s.split(',').count() > 1", "x.split(',').count() > 1", []),
        ("string", inner_string(), "pred", "nested-closure", "|s| s.chars().all(|c| c != '|')", "x.chars().all(|c| c != '|')", []),
        ("string", inner_string(), "san", "mut-closure-block", "|mut s| { while s.len() > 2 { s.pop(); } s }", "{ let mut x = x; while x.len() > 2 { x.pop(); } x }", []),
        ("string", inner_string(), "san", "typed-mut-closure", "|mut s: String| { s.push('!'); s }", "{ let mut x = x; x.push('!'); x }", []),
        ("string", inner_string(), "san", "method-path", "str_upper", "x.to_uppercase()", ["fn str_upper(s: String) -> String { s.to_uppercase() }"]),
        ("float", inner_float("f64"), "pred", "method-path", "f64::is_finite_ref", "x.is_finite()", ["trait R { fn is_finite_ref(&self) -> bool; } impl R for f64 { fn is_finite_ref(&self) -> bool { self.is_finite() } }"]),
        ("float", inner_float("f32"), "san", "closure-with-comma-call", "|x| x.clamp(0.0, 1.0)", "x.clamp(0.0, 1.0)", []),
    ]
    for fam, inner, what, cls, attr, body, sup in tricky:
        d = new(inner, "fn:%s:%s:%s" % (fam, what, cls))
        d.support += sup
        if what == "pred":
            add_predicate(d, body, "path")
            d.vals[-1].arg = attr
            d.vals.append(Vld("less" if fam != "string" else "len_char_max", "1000" if fam == "int" else ("1000.0" if fam == "float" else "50"),
                              1000 if fam == "int" else (float_denote(inner.conc_ty, Fraction(1000)) if fam == "float" else 50)))
        else:
            add_with_sanitizer(d, body, "path")
            d.sans[-1].arg = attr
            if fam == "string":
                d.sans.append(San("trim"))
    # ---- attribute layouts: block order, trailing commas, repeated blocks with *different* contents
    base_blocks = {"sanitize": "sanitize(with = |x| x.wrapping_add(1))", "validate": "validate(greater = 1, less = 50)", "derive": "derive(Debug, Default)", "default": "default = 7"}
    for perm in itertools.permutations(["sanitize", "validate", "derive", "default"]):
        for tc in (False, True):
            d = new(inner_int("i32"), "layout:block-order")
            add_with_sanitizer(d, "x.wrapping_add(1)", "closure")
            d.vals = [Vld("greater", "1", 1), Vld("less", "50", 50)]
            d.derives = ["Debug", "Default"]
            d.default = ("7", 7)
            d.tags.append("C03")
            d.block_order = tuple(perm) + ("const_fn", "new_unchecked")
            d.trailing_commas = tc
    rep = [
        ("repeated-validate-nonadjacent", "validate(greater = 5), sanitize(with = |x| x), validate(less = 3)", [("greater", 5), ("less", 3)]),
        ("repeated-validate-nonadjacent", "validate(greater = 5), sanitize(with = |x| x), derive(Debug), validate(less = 3)", [("greater", 5), ("less", 3)]),
        ("repeated-validate-nonadjacent", "validate(greater = 5), default = 7, validate(less = 3), derive(Debug, Default)", [("greater", 5), ("less", 3)]),
        ("repeated-validate-nonadjacent", "derive(Debug), validate(greater = 5), const_fn, validate(less = 3)", [("greater", 5), ("less", 3)]),
        ("repeated-sanitize-nonadjacent", "sanitize(with = |x| x.wrapping_add(1)), derive(Debug), sanitize(with = |x| x.wrapping_mul(2))", None),
        ("repeated-sanitize-nonadjacent", "sanitize(with = |x| x.wrapping_add(1)), validate(less = 1000), sanitize(with = |x| x.wrapping_mul(2)), derive(Debug)", "san+less1000"),
        ("repeated-validate", "validate(greater = 5), validate(less = 3)", [("greater", 5), ("less", 3)]),
        ("repeated-validate-same-kind", "validate(greater = 5), validate(greater = 1)", [("greater", 5), ("greater", 1)]),
        ("repeated-validate-split", "validate(greater = 5), derive(Debug), validate(less = 30)", [("greater", 5), ("less", 30)]),
        ("repeated-sanitize", "sanitize(with = |x| x.wrapping_add(1)), sanitize(with = |x| x.wrapping_mul(2))", None),
        ("repeated-derive", "derive(Debug), derive(Clone)", []),
        ("repeated-default", "derive(Debug, Default), default = 1, default = 2", []),
    ]
    # every order of one repeated rule-bearing block with at least one other block in between (and any further blocks anywhere)
    for B in ("sanitize", "validate"):
        if B == "sanitize":
            b1, b2 = "sanitize(with = |x| x.wrapping_add(1))", "sanitize(with = |x| x.wrapping_mul(2))"
            others = {"V": "validate(less = 1000)", "D": "derive(Debug)", "F": "default = 7"}
        else:
            b1, b2 = "validate(greater = 5)", "validate(less = 3)"
            others = {"S": "sanitize(with = |x| x)", "D": "derive(Debug)", "F": "default = 7"}
        for k in (1, 2, 3):
            for sub in itertools.combinations(sorted(others), k):
                if "F" in sub and "D" not in sub:
                    continue
                for perm in itertools.permutations(("1", "2") + sub):
                    i1, i2 = perm.index("1"), perm.index("2")
                    if not (i1 + 1 < i2):
                        continue
                    txt = {"1": b1, "2": b2}
                    txt.update(others)
                    if "F" in sub:
                        txt["D"] = "derive(Debug, Default)"
                    attrs = ", ".join(txt[x] for x in perm)
                    if B == "sanitize":
                        rep.append(("repeated-sanitize-nonadjacent", attrs, "san+less1000" if "V" in sub else None))
                    else:
                        rep.append(("repeated-validate-nonadjacent", attrs, [("greater", 5), ("less", 3)]))
    for cls, attrs, rules in rep:
        d = new(inner_int("i32"), "layout:" + cls)
        d.attr_override = attrs
        if rules is None or rules == "san+less1000":
            # both sanitizers written: the honest reading applies both, in order
            add_with_sanitizer(d, "x.wrapping_add(1).wrapping_mul(2)", "path")
            d.sans[-1].arg = "UNUSED"
            if rules == "san+less1000":
                d.vals = [Vld("less", "1000", 1000)]
        elif rules:
            d.vals = [Vld(k, str(v), v) for k, v in rules]
        d.derives = ["Debug"] if "Debug" in attrs else []
        if "Clone" in attrs and cls == "repeated-derive":
            d.derives = ["Debug"]
            d.tags.append("needs=Debug+Clone")
    # `finite` at every position relative to two literal bounds (a rule that looks redundant next to bounds must still be enforced: NaN passes both comparisons)
    for ty in ("f32", "f64"):
        for order in itertools.permutations(("lower", "upper", "finite")):
            for (lk, uk) in (("greater_or_equal", "less_or_equal"), ("greater", "less")):
                d = new(inner_float(ty), "layout:finite-position:%s" % "-".join(order))
                for k in order:
                    if k == "finite":
                        d.vals.append(Vld("finite"))
                    elif k == "lower":
                        d.vals.append(Vld(lk, "0.0", float_denote(ty, Fraction(0))))
                    else:
                        d.vals.append(Vld(uk, "1.0", float_denote(ty, Fraction(1))))
    # built-in string sanitizers, alone and combined, on inputs where a "nothing to do" shortcut is wrong (titlecase letters, vertical tab, final sigma)
    for sl in (["lowercase"], ["uppercase"], ["trim"], ["trim", "lowercase"], ["uppercase", "trim"], ["lowercase", "trim"]):
        for with_val in (False, True):
            d = new(inner_string(), "san:builtin:" + "+".join(sl))
            for s_ in sl:
                d.sans.append(San(s_))
            if with_val:
                d.vals.append(Vld("len_char_max", "12", 12))
            for pr in ("ǅ", "ǅungla", "ᾈ", "ǲ", "\x0bab\x0b", " \x0b ", "\x0c", "ΟΔΥΣΣΕΥΣ", "ΣΑΣ ΣΑΣ", "İ", "ß", "ﬁ", "ǅA", "aǅ"):
                d.tags.append("probe=" + pr)
    # built-in validators mixed with `with`/`error` (normally refused): if accepted, every written rule must be enforced
    for fam, inner, bound_txt, kind, den, cond in (("int", inner_int("i32"), "100", "less_or_equal", 100, "*x != 13"), ("float", inner_float("f64"), "100.0", "less_or_equal", None, "*x != 13.0"),
                                                   ("string", inner_string(), "4", "len_char_max", 4, "x.len() != 2")):
        for custom_first in (False, True):
            d = new(inner, "layout:builtin-mixed-with-custom:%s:%s" % (fam, "custom-first" if custom_first else "builtin-first"))
            add_custom_validation(d, cond)
            E = d.custom[1]
            dden = float_denote("f64", Fraction(100)) if fam == "float" else den
            d.vals = [Vld(kind, bound_txt, dden)]
            if custom_first:
                d.tags.append("custom_first")
                d.attr_override = "validate(with = cv_impl, error = %s, %s = %s), derive(Debug)" % (E, kind, bound_txt)
            else:
                d.attr_override = "validate(%s = %s, with = cv_impl, error = %s), derive(Debug)" % (kind, bound_txt, E)
    return b.decls
