"""Regenerate MANIFEST.json from the table of implemented checks."""
import json, os, sys
sys.path.insert(0, os.path.dirname(os.path.dirname(os.path.abspath(__file__))))
VERIF = os.path.dirname(os.path.dirname(os.path.abspath(__file__)))

CHECKS = {
    "C01": ("reference-model monitor over generated declarations (runtime oracle on every try_new/new result; inputs repeated on a fresh thread and under 4 concurrent threads; bounds read from a run-time cell changed between calls)", "rt",
            "Exploration: the real generated constructors are executed on exhaustive small domains (all 8/16-bit integers, all short strings over a hostile alphabet; thorough: all 2^32 f32 patterns for 8 declarations, every Unicode scalar) and boundary/random inputs of ~3000 (quick) / ~6600 (thorough) generated declarations, each result compared with an independent sanitize-then-validate interpreter whose bounds are evaluated in Python. Not a proof: declarations and wide-type inputs are sampled.", "5/C01"),
    "C03": ("differential runtime monitor: each derived conversion vs the canonical constructor on the same input (also in a twin build with debug assertions off)", "rt",
            "Exploration: every derived TryFrom/From/FromStr(String)/Default is executed on the C01 input domains and compared (verdict, stored bits, error) with try_new/new; Default is compared with the constructor on the declared default expression (must panic iff rejected).", "5/C03"),
    "C06": ("differential runtime monitor: T::from_str vs Inner::from_str followed by the constructor + compile verdicts for FromStr impls in prelude-shadowing scopes", "rt",
            "Exploration over hostile numeric spellings; the oracle is the inner type's own FromStr plus the (C01-monitored) constructor, so no numeric-parsing model is trusted.", "5/C06"),
    "C07": ("reference-model monitor (first violated rule in declared order) + wildcard-free match on the generated error enum", "rt",
            "Exploration over permutations of validator lists with inputs violating several rules at once; enum exhaustiveness is decided by rustc on a wildcard-free match in the harness.", "5/C07"),
    "C11": ("fixed-point / chain-closure runtime monitor over every obtainable value (constructor, TryFrom, From, FromStr, Default); input-wise applicability decided by the reference model for custom sanitizers", "rt",
            "Exploration: for every Ok value of the C01 sweep every derived re-entry step must land on the same bits; thorough covers every Unicode scalar and case/space pairs.", "5/C11"),
    "C12": ("invariant assertion (is_finite) on every value leaving any entry point + order-axiom monitor on pairs/triples + compile-verdict monitor on the unsafe door (new_unchecked needs `unsafe` / the flag under every flag combination)", "rt",
            "Exploration: obtainability invariant asserted at try_new/TryFrom/FromStr/Default/Deserialize/Arbitrary with NaN payloads, infinities and overflow spellings offered; order axioms checked on all pairs and triples of up to 96 obtainable values per declaration; thorough sweeps all 2^32 f32 patterns.", "5/C12"),
    "C13": ("differential runtime monitor: views, Display, clone/clone_from, comparisons and hashes of the newtype vs the inner value (also on values stored through new_unchecked), all under catch_unwind + compile-verdict monitor on the exact types of the views of lifetime-/type-parameterised newtypes", "rt",
            "Exploration over all obtainable values and ~2k-50k pairs per declaration (equal, adjacent, equal only after sanitisation, random); map lookups through the borrowed form included.", "5/C13"),
    "C02": ("reference-model monitor with Python-denoted bounds over a spelling/layout corpus (accepted declarations are executed; rejected ones are fine) + compile-verdict monitor over declarations that cannot be honoured (invalid regex literals with valid twins, four feature sets)", "c02",
            "Exploration: ~1080 (quick) / ~3600 (thorough) declarations, one per syntactic form x family x validator kind, each accepted one driven through try_new on inputs around the denoted bound, its negation, half/double and +-10; the oracle's bound values come from Python arithmetic, never from the macro's parse.", "5/C02"),
    "C04": ("differential runtime monitor: Deserialize of the newtype vs a serde-derived reference newtype parsed from the same bytes, then the constructor; probing Deserializer; repeated documents; deserialize_in_place into an existing value", "rt",
            "Exploration: ~180-230 serde declarations x 3 formats x 6 container positions x (serde-produced encodings of boundary/valid/invalid values, ~60 hostile documents per format, byte-level mutations). The critical direction (Ok where the reference says none = guard bypass) and the converse are both checked.", "5/C04"),
    "C05": ("compile-verdict monitor over a bypass-attack catalogue (client-level and declaration-level attacks, two crate-feature sets) with positive-control twins + stand-alone fail-closed probe (regex without Unicode support) + offline rule checker over an expansion event log (nightly -Zunpretty=expanded parsed with syn)", "verdict+audit",
            "Exploration: ~1100 attack programs (each with a control twin that must compile) against 19 victim declarations x 2 visibilities, declaration-level attacks, a feature-off crate, plus structural rules over ~230 audited expansion modules. A catalogue samples 'all client programs'; the audit covers every function present in the audited expansions.", "5/C05"),
    "C08": ("compile-verdict monitor: rustc's verdict per generated declaration (span attribution, fixpoint to a clean build) vs an independent 3-valued reference predicate under 8 crate-feature sets; generated unit tests observed via cargo test (build errors attributed per case)", "verdict",
            "Exploration: ~1900 declarations per crate-feature set, 8 sets (systematic matrix + one case per rejection rule with well-formed neighbours + hostile names + generics x derives + layouts + seeded random tail) and 175 expression-valued bound/default cases whose generated tests must fail exactly when contradictory.", "5/C08"),
    "C09": ("reference-model monitor on every value produced by the derived Arbitrary (arbitrary and arbitrary_take_rest) under catch_unwind + stall watchdog (bounded-progress restatement of termination)", "rt",
            "Exploration: all byte inputs of length <= 2, boundary patterns up to 64 bytes, encodings of special floats / case-expanding code points, random inputs, over ~1040 (quick) / ~2060 (thorough) declarations with non-empty valid sets; thorough adds all 2^32 4-byte inputs for 8 f32 generators. Known generator defects are listed in known_findings.json by cause class verified on the witness.", "5/C09"),
    "C10": ("recording-Serializer trace check + byte-identity vs inner encoding + conditioned round-trip monitor + compile verdicts (owned deserialization from a short-lived buffer; serde impls in prelude-shadowing scopes)", "rt",
            "Exploration over every obtainable value of the serde corpus document domain in JSON, RON and MessagePack; the trace check is format independent.", "5/C10"),
    "C14": ("exhaustive runtime enumeration: produced sets of the derived Arbitrary (arbitrary and arbitrary_take_rest) over all <=2-byte inputs compared with the valid set", "rt",
            "Per declaration exhaustive (the generator consumes at most 2 bytes for ranges of <= 2^16 values, so [] plus all 1- and 2-byte inputs cover its whole behaviour); declarations are sampled from the grammar with a systematic core (range sizes 1,2,255,256,257,65536; every operator class in expression bounds).", "5/C14"),
    "C15": ("compile-verdict monitor on a generated #![no_std] library crate (nutype default-features = false, +serde, +arbitrary), built as `cargo check` and again as `cargo check --tests`, plus an alloc-free crate (neither alloc nor std in its graph), with std-using control declarations", "verdict",
            "Exploration: ~1430 (quick) / ~2490 (thorough) declarations: families x guard variants x each derivable trait singly and all together x default/const_fn/generics must be in the clean build; three std-using controls must be rejected. Host target only.", "5/C15"),
    "C16": ("message-reading monitor: the relation stated in the error text is evaluated at the bound and its neighbours and compared with try_new; on the FromStr path the named rule must be violated by the number the text denotes", "rt",
            "Exploration over every (family x bound kind) with bounds of both signs/magnitudes; a closed phrase dictionary maps text to a relation; unknown wording is inconclusive, not a violation.", "5/C16"),
}

NOT_YET = {}


def main():
    props = [json.loads(l) for l in open(os.path.join(VERIF, "properties.jsonl"))]
    checks = []
    na = []
    for p in props:
        pid = p["id"]
        if pid in CHECKS:
            tech, engine, text, ref = CHECKS[pid]
            checks.append({
                "property_id": pid,
                "quick_cmd": "./nvcheck check %s --tier quick" % pid,
                "thorough_cmd": "./nvcheck check %s --tier thorough" % pid,
                "evidence_file": "/verif/evidence/%s.json" % pid,
                "replay_cmd_template": "./nvcheck replay {path}",
                "engine": engine,
                "level_claimed": {"category": "exploration", "text": text, "design_ref": "DESIGN.md section " + ref},
                "level_note": "Build configurations explored: dev profile with nutype default features (main workspace) plus, where DESIGN.md section 2.6 lists them, debug assertions off, --cfg fuzzing, nutype std feature off, eight crate-feature sets, dependency (non-primary) builds. Trusted: rustc/cargo 1.95, std (Unicode tables, float parsing/formatting), serde/serde_json/ron/rmp-serde/arbitrary/regex crates as pinned by /repo/Cargo.lock, the Python generator's exact bound arithmetic, the nvrt reference interpreter. Declarations are generated from the documented grammar (systematic core + VERIF_SEED random tail); nothing outside the explored declarations and inputs is claimed.",
                "technique": tech,
            })
        else:
            na.append({"property_id": pid, "reason": NOT_YET.get(pid, "check not built yet (work in progress; see DESIGN.md)")})
    m = {
        "version": 1,
        "setup_cmd": "./nvcheck setup",
        "hooks": {"guard": "nutype_verif", "enable": "none needed: no source hooks; every property is observed at the public boundary of generated code, in rustc diagnostics, or in the nightly expansion dump (guard name reserved)",
                  "baseline_off_cmd": "cd /repo && cargo test --workspace --no-fail-fast --offline", "source_commits": [], "add_only": True},
        "engines": [
            {"name": "verdict", "path": "gen/verdict.py (+ gen/corpus_verdict.py, corpus_c05.py, corpus_nostd.py)", "serves_properties": ["C05", "C08", "C15"],
             "kind_free_text": "compile-verdict monitor: many cases per crate, cargo check --message-format=json, errors attributed to cases by span line, fixpoint rebuild until clean"},
            {"name": "audit", "path": "auditor/ (Rust, syn) + gen/audit.py", "serves_properties": ["C05"],
             "kind_free_text": "expansion auditor: nightly -Zunpretty=expanded -> syn -> JSON event log -> offline structural rules"},
            {"name": "c02", "path": "gen/corpus_spelling.py (workspace work/c02-<tier>) + rt/", "serves_properties": ["C02"],
             "kind_free_text": "spelling corpus compiled like the rt workspace; rejected declarations are recorded, accepted ones run under the C01/C03 monitors with Python-denoted bounds"},
            {"name": "rt", "path": "gen/ + rt/ (workspace work/rt-<tier>-s<seed>)", "serves_properties": ["C01", "C03", "C04", "C06", "C07", "C09", "C10", "C11", "C12", "C13", "C14", "C16"],
             "kind_free_text": "generated harness crates (one module per #[nutype] declaration + object-safe glue) linked with the nvrt monitor library; 16 monitor processes"},
        ],
        "checks": checks,
        "notes": "Runtime-monitoring family only. Exit codes: 0 held, 1 VIOLATION (new, not in known_findings.json), 2 INCONCLUSIVE (harness/guard problem; never a violation). See DESIGN.md.",
        "not_applicable": na,
    }
    json.dump(m, open(os.path.join(VERIF, "MANIFEST.json"), "w"), indent=1)


if __name__ == "__main__":
    main()
