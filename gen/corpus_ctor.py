"""The constructor corpus: serves C01, C03, C06, C07(part), C11, C13 (tags select the monitors)."""
import itertools, random
from fractions import Fraction
from .model import *
from .lib import *
from .floats import round_f32, round_f64, bits_f32, bits_f64, f64_bits, f32_bits
import math

CTOR_TAGS = ["C01", "C03", "C06", "C11", "C13"]

INT_DERIVES = ["Debug", "Clone", "Copy", "PartialEq", "Eq", "PartialOrd", "Ord", "Hash", "AsRef", "Deref", "Borrow", "Into", "Display", "FromStr"]
FLOAT_DERIVES = ["Debug", "Clone", "Copy", "PartialEq", "PartialOrd", "AsRef", "Deref", "Borrow", "Into", "Display", "FromStr"]
STRING_DERIVES = ["Debug", "Clone", "PartialEq", "Eq", "PartialOrd", "Ord", "Hash", "AsRef", "Deref", "Borrow", "Into", "Display", "FromStr"]


class Builder:
    def __init__(self, prefix, tier, seed):
        self.prefix = prefix
        self.tier = tier
        self.rng = random.Random(seed * 1000003 + hash(prefix) % 1000)
        self.rng = random.Random(f"{prefix}:{seed}")
        self.decls = []
        self.n = 0

    def new(self, inner, tags=None, type_name=None):
        self.n += 1
        d = Decl(id="%s%04d" % (self.prefix, self.n), type_name=type_name or "T%s%04d" % (self.prefix.upper(), self.n), inner=inner,
                 tags=list(tags if tags is not None else CTOR_TAGS))
        self.decls.append(d)
        return d


def finish_derives(d: Decl, base, idx=0, want_default=None):
    """conversion traits: alternate TryFrom / From (From only without validation); Default when asked."""
    der = list(base)
    caps = d.inner.caps
    der = [t for t in der if t in ("AsRef", "Deref", "Borrow", "Into", "TryFrom", "From") or t in caps]
    if d.inner.fam == "float":
        has_finite = any(v.kind == "finite" for v in d.vals)
        if has_finite and not d.custom:
            der += ["Eq", "Ord"]
            if "C12" not in d.tags:
                d.tags.append("C12")
    if d.has_validation or idx % 2 == 0:
        der.append("TryFrom")
    else:
        der.append("From")
    if d.default is not None:
        der.append("Default")
    if d.const_fn:
        pass
    d.derives = der
    return d


# ------------------------------------------------------------------------------------------------
# integer bounds

def int_positions(ty):
    lo, hi = int_range(ty)
    pos = [("MIN", lo), ("MIN+1", lo + 1), ("0", 0), ("1", 1), ("mid", (lo + hi) // 2 + 7), ("MAX-1", hi - 1), ("MAX", hi)]
    if lo < 0:
        pos.insert(2, ("-1", -1))
    return pos


def int_lit(v):
    s = str(v)
    if abs(v) >= 10000:
        # exercise `_` separators on large literals
        neg = s.startswith("-")
        digits = s.lstrip("-")
        parts = []
        while digits:
            parts.insert(0, digits[-3:])
            digits = digits[:-3]
        s = ("-" if neg else "") + "_".join(parts)
    return s


def int_bound(kind, ty, v, spelling="lit", d=None, name=None):
    """returns Vld; expression spellings add support items to d"""
    lo, hi = int_range(ty)
    if spelling == "lit":
        return Vld(kind, int_lit(v), v)
    n = name or ("K%d" % len(d.support))
    if spelling == "const":
        d.support.append(f"const {n}: {ty} = {v};")
        return Vld(kind, n, v)
    if spelling == "minmax":
        if v == lo:
            return Vld(kind, f"{ty}::MIN", v)
        if v == hi:
            return Vld(kind, f"{ty}::MAX", v)
        if v == hi - 1:
            return Vld(kind, f"{ty}::MAX - 1", v)
        if v == lo + 1:
            return Vld(kind, f"{ty}::MIN + 1", v)
        d.support.append(f"const {n}: {ty} = {v};")
        return Vld(kind, f"({n})", v)
    if spelling == "fn":
        d.support.append(f"const fn {n.lower()}() -> {ty} {{ {v} }}")
        return Vld(kind, f"{n.lower()}()", v)
    raise ValueError(spelling)


def build_int(b: Builder):
    tier = b.tier
    types = list(INT_TYPES)
    kinds = ["greater", "greater_or_equal", "less", "less_or_equal"]
    idx = 0
    for ti, ty in enumerate(types):
        pos = int_positions(ty)
        # --- single bounds
        for ki, kind in enumerate(kinds):
            for pi, (pname, v) in enumerate(pos):
                if tier == "quick" and (pi + ti + ki) % 3 != 0:
                    continue
                idx += 1
                d = b.new(inner_int(ty))
                spelling = ["lit", "const", "minmax", "fn"][(pi + ki + ti) % 4]
                d.vals.append(int_bound(kind, ty, v, spelling, d))
                if idx % 3 == 0:
                    # default: valid / invalid alternate (both must behave: return or panic)
                    lo, hi = int_range(ty)
                    dv = [v, lo, hi, 0][idx % 4]
                    d.default = (str(dv), dv)
                finish_derives(d, INT_DERIVES, idx)
        # --- pairs lower x upper in both orders
        lo, hi = int_range(ty)
        mid = (lo + hi) // 2
        pair_vals = [(lo, hi), (lo + 1, hi - 1), (0, 10), (mid - 3, mid + 3), (5, 5), (7, 9)]
        if lo < 0:
            pair_vals += [(-10, 10), (-5, -1)]
        combos = list(itertools.product(["greater", "greater_or_equal"], ["less", "less_or_equal"]))
        for ci, (lk, uk) in enumerate(combos):
            for pi, (a, c) in enumerate(pair_vals):
                if tier == "quick" and (pi + ti + ci) % 4 != 0:
                    continue
                if a == c and (lk == "greater" or uk == "less"):
                    continue  # contradictory literals (C08 territory)
                if c - a == 1 and lk == "greater" and uk == "less":
                    continue  # adjacent exclusive: UNSPECIFIED
                idx += 1
                d = b.new(inner_int(ty))
                sp = ["lit", "const"][(pi + ci) % 2]
                lower = int_bound(lk, ty, a, sp, d, "LO")
                upper = int_bound(uk, ty, c, sp, d, "HI")
                d.vals = [lower, upper] if idx % 2 == 0 else [upper, lower]
                if idx % 2 == 0:
                    dv = a + (c - a) // 2
                    d.default = (str(dv), dv)
                finish_derives(d, INT_DERIVES, idx)
        # --- predicate, sanitizers, combos
        sb = int_sanitizer_bodies(ty)
        pb = int_predicate_bodies(ty)
        for si, (sname, sbody, sconst) in enumerate(sb):
            for vi in range(4):
                if tier == "quick" and (si + vi + ti) % 3 != 0:
                    continue
                idx += 1
                d = b.new(inner_int(ty))
                add_with_sanitizer(d, sbody, SPELLINGS[(si + vi + ti) % 4])
                if sname in ("wadd1", "half"):
                    d.tags = [t if t != "C11" else "C11v" for t in d.tags]   # not idempotent: C11 applies only to values the model says are canonical
                if vi == 1:
                    d.vals.append(int_bound("less_or_equal", ty, 50, "lit", d))
                elif vi == 2:
                    d.vals.append(int_bound("greater_or_equal", ty, 1, "lit", d))
                    pn, pbody, _ = pb[(si + ti) % len(pb)]
                    add_predicate(d, pbody, SPELLINGS[(si + ti + 1) % 4])
                elif vi == 3:
                    add_custom_validation(d, "*x != 13", ["path", "closure", "typed"][(si + ti) % 3])
                if idx % 3 == 1:
                    d.default = ("120", 120)   # needs sanitising for clamp
                finish_derives(d, INT_DERIVES, idx)
        # two sanitizers in both orders (order matters: wadd1 then half vs half then wadd1)
        for order in ([0, 3], [3, 0]):
            idx += 1
            d = b.new(inner_int(ty))
            for oi in order:
                add_with_sanitizer(d, sb[oi][1], SPELLINGS[(oi + ti) % 4])
            # duplicates of `with` are rejected by the macro, so only one `with` may be written
            d.sans = d.sans[:1]
            d.support = d.support[:2]
            d.tags = [t for t in d.tags if t != "C11"]
            d.vals.append(int_bound("less", ty, 100, "lit", d))
            finish_derives(d, INT_DERIVES, idx)
        # predicates only, every spelling
        for pi2, (pn, pbody, _) in enumerate(pb):
            if tier == "quick" and (pi2 + ti) % 2 != 0:
                continue
            idx += 1
            d = b.new(inner_int(ty))
            add_predicate(d, pbody, SPELLINGS[(pi2 + ti) % 3])
            finish_derives(d, INT_DERIVES, idx)
        # no guards at all
        idx += 1
        d = b.new(inner_int(ty))
        d.default = ("7", 7)
        finish_derives(d, INT_DERIVES, idx)


# ------------------------------------------------------------------------------------------------
# floats

def float_bound_values(ty):
    """(attribute text or None => needs const, support item, exact value as float/Fraction)"""
    T = ty
    vals = [
        (f"{T}::NEG_INFINITY", None, -math.inf),
        (f"{T}::MIN", None, "MIN"),
        ("-1.5", None, Fraction(-3, 2)),
        ("-0.0", None, "NEGZERO"),
        ("0.0", None, Fraction(0)),
        (f"{T}::MIN_POSITIVE", None, "MINPOS"),
        ("SUBN", "SUBN", "SUB"),
        ("0.1", None, Fraction(1, 10)),
        ("64.0", None, Fraction(64)),
        ("1e30" if ty == "f32" else "1e300", None, Fraction(10) ** (30 if ty == "f32" else 300)),
        (f"{T}::MAX", None, "MAX"),
        (f"{T}::INFINITY", None, math.inf),
        ("12", None, Fraction(12)),          # integer literal for a float bound
        ("1_000.5", None, Fraction(2001, 2)),
        ("2.5e-3", None, Fraction(25, 10000)),
    ]
    return vals


def float_denote(ty, ex):
    if ty == "f32":
        table = {"MIN": 0xFF7FFFFF, "MAX": 0x7F7FFFFF, "MINPOS": 0x00800000, "SUB": 0x00000001, "NEGZERO": 0x80000000}
        if isinstance(ex, str):
            return ("f32", table[ex])
        return ("f32", round_f32(ex))
    table = {"MIN": f64_bits(-1.7976931348623157e308), "MAX": f64_bits(1.7976931348623157e308), "MINPOS": 0x0010000000000000,
             "SUB": 1, "NEGZERO": 0x8000000000000000}
    if isinstance(ex, str):
        return ("f64", table[ex])
    return ("f64", round_f64(ex))


def float_bound(kind, ty, text, sup, ex, d):
    if sup == "SUBN":
        lit = "1e-45" if ty == "f32" else "5e-324"
        if not any("const SUBN" in s for s in d.support):
            d.support.append(f"const SUBN: {ty} = {lit};")
    return Vld(kind, text, float_denote(ty, ex))


def build_float(b: Builder):
    tier = b.tier
    kinds = ["greater", "greater_or_equal", "less", "less_or_equal"]
    idx = 0
    for ti, ty in enumerate(FLOAT_TYPES):
        bv = float_bound_values(ty)
        for ki, kind in enumerate(kinds):
            for vi, (text, sup, ex) in enumerate(bv):
                if tier == "quick" and (vi + ki + ti) % 2 != 0:
                    continue
                idx += 1
                d = b.new(inner_float(ty))
                d.vals.append(float_bound(kind, ty, text, sup, ex, d))
                if idx % 3 == 0:
                    d.vals.append(Vld("finite"))
                elif idx % 3 == 1:
                    d.vals.insert(0, Vld("finite"))
                if idx % 4 == 0:
                    d.default = ("0.5", float_denote(ty, Fraction(1, 2)))
                finish_derives(d, FLOAT_DERIVES, idx)
        # pairs
        pair_vals = [("-1.5", Fraction(-3, 2), "1.5", Fraction(3, 2)), ("0.0", Fraction(0), "1.0", Fraction(1)),
                     ("-0.0", "NEGZERO", "0.0", Fraction(0)), ("0.1", Fraction(1, 10), "0.1", Fraction(1, 10)),
                     (f"{ty}::MIN", "MIN", f"{ty}::MAX", "MAX"), ("64.0", Fraction(64), "1e30", Fraction(10) ** 30),
                     (f"{ty}::NEG_INFINITY", -math.inf, f"{ty}::INFINITY", math.inf)]
        combos = list(itertools.product(["greater", "greater_or_equal"], ["less", "less_or_equal"]))
        for ci, (lk, uk) in enumerate(combos):
            for pi, (at, a, ct, c) in enumerate(pair_vals):
                if tier == "quick" and (pi + ci + ti) % 3 != 0:
                    continue
                if at == ct and (lk == "greater" or uk == "less"):
                    continue
                if (at, ct) == ("-0.0", "0.0") and (lk == "greater" or uk == "less"):
                    continue   # -0.0 == 0.0: contradictory / empty
                idx += 1
                d = b.new(inner_float(ty))
                lower = float_bound(lk, ty, at, None, a, d)
                upper = float_bound(uk, ty, ct, None, c, d)
                d.vals = [lower, upper] if idx % 2 == 0 else [upper, lower]
                if idx % 2 == 1:
                    d.vals.insert(idx % 3, Vld("finite"))
                finish_derives(d, FLOAT_DERIVES, idx)
        # finite alone, predicate, sanitizers
        idx += 1
        d = b.new(inner_float(ty)); d.vals.append(Vld("finite")); d.default = ("0.0", float_denote(ty, Fraction(0)))
        finish_derives(d, FLOAT_DERIVES, idx)
        sb = float_sanitizer_bodies(ty)
        pb = float_predicate_bodies(ty)
        for si, (sname, sbody, _) in enumerate(sb):
            for vi in range(4):
                if tier == "quick" and (si + vi + ti) % 2 != 0:
                    continue
                idx += 1
                d = b.new(inner_float(ty))
                add_with_sanitizer(d, sbody, SPELLINGS[(si + vi + ti) % 4])
                if vi == 1:
                    d.vals.append(float_bound("less_or_equal", ty, "0.5", None, Fraction(1, 2), d))
                    d.vals.append(Vld("finite"))
                elif vi == 2:
                    pn, pbody, _ = pb[(si + ti) % len(pb)]
                    add_predicate(d, pbody, SPELLINGS[(si + ti + 1) % 3])
                    d.vals.append(float_bound("greater", ty, "-1.5", None, Fraction(-3, 2), d))
                elif vi == 3:
                    add_custom_validation(d, "*x != 13.0", ["path", "closure", "typed"][(si + ti) % 3])
                if idx % 3 == 1:
                    d.default = ("2.5", float_denote(ty, Fraction(5, 2)))
                finish_derives(d, FLOAT_DERIVES, idx)
        for pi2, (pn, pbody, _) in enumerate(pb):
            idx += 1
            d = b.new(inner_float(ty))
            add_predicate(d, pbody, SPELLINGS[(pi2 + ti) % 3])
            finish_derives(d, FLOAT_DERIVES, idx)
        idx += 1
        d = b.new(inner_float(ty)); d.default = ("1.25", float_denote(ty, Fraction(5, 4)))
        finish_derives(d, FLOAT_DERIVES, idx)


# ------------------------------------------------------------------------------------------------
# strings

def string_sanitizer_lists():
    out = [[]]
    atoms_sets = [("trim",), ("lowercase",), ("uppercase",), ("with",),
                  ("trim", "lowercase"), ("trim", "uppercase"), ("trim", "with"), ("lowercase", "with"), ("uppercase", "with"),
                  ("trim", "lowercase", "with"), ("trim", "uppercase", "with")]
    for s in atoms_sets:
        for p in itertools.permutations(s):
            out.append(list(p))
    return out


REGEXES = [r"^[a-z0-9]+$", r"^\S+@\S+$", r"a", r"^.{2,3}$", r"^\p{Lu}"]


def string_validator_sets():
    """each entry: list of (kind, value)"""
    return [
        [],
        [("not_empty", None)],
        [("len_char_min", 2)],
        [("len_char_max", 3)],
        [("len_char_min", 1), ("len_char_max", 3)],
        [("len_char_max", 4), ("len_char_min", 2)],
        [("not_empty", None), ("len_char_max", 2)],
        [("len_char_min", 3), ("len_char_max", 3)],
        [("predicate", 0)],
        [("regex", 0)],
        [("regex", 3), ("len_char_min", 1)],
        [("len_char_max", 0)],
        [("predicate", 1), ("not_empty", None), ("regex", 2)],
        [("custom", None)],
        [("len_char_min", 0)],
    ]


def apply_string_validators(d: Decl, vs, idx):
    for (k, v) in vs:
        if k in ("len_char_min", "len_char_max"):
            sp = idx % 3
            if sp == 0:
                d.vals.append(Vld(k, str(v), v))
            elif sp == 1:
                n = "LMIN" if k == "len_char_min" else "LMAX"
                d.support.append(f"const {n}: usize = {v};")
                d.vals.append(Vld(k, n, v))
            else:
                d.vals.append(Vld(k, f"{v}_usize" if False else str(v), v))
        elif k == "not_empty":
            d.vals.append(Vld("not_empty"))
        elif k == "predicate":
            pn, pbody, _ = string_predicate_bodies()[v]
            add_predicate(d, pbody, SPELLINGS[idx % 3])
        elif k == "regex":
            pat = REGEXES[v]
            if idx % 2 == 0:
                d.vals.append(Vld("regex", '"%s"' % pat.replace("\\", "\\\\"), pat))
            else:
                name = "RX%d" % len(d.vals)
                d.support.append("static %s: ::std::sync::LazyLock<::regex::Regex> = ::std::sync::LazyLock::new(|| ::regex::Regex::new(%s).unwrap());" % (name, rust_str(pat)))
                d.vals.append(Vld("regex", name, pat))
        elif k == "custom":
            add_custom_validation(d, "x.len() != 2", "path")


def build_string(b: Builder):
    tier = b.tier
    sls = string_sanitizer_lists()
    vss = string_validator_sets()
    sbod = string_sanitizer_bodies()
    idx = 0
    for si, sl in enumerate(sls):
        for vi, vs in enumerate(vss):
            if tier == "quick" and (si + vi) % 4 != 0:
                continue
            idx += 1
            d = b.new(inner_string())
            if tier == "thorough" and not any(k in ("custom",) for k, _ in vs) and "with" not in sl and vi % 3 == 0:
                d.tags.append("unicode_sweep")
            for s in sl:
                if s == "with":
                    sn, sbody, _ = sbod[(si + vi) % len(sbod)]
                    add_with_sanitizer(d, sbody, SPELLINGS[(si + vi) % 4])
                else:
                    d.sans.append(San(s))
            apply_string_validators(d, vs, idx)
            if idx % 3 == 0:
                dv = ["  Bob ", "", "abc", " xA "][idx % 4]
                d.default = (rust_str(dv) + (".to_string()" if idx % 2 == 0 else ""), dv)
                if idx % 2 == 1 and False:
                    pass
            finish_derives(d, STRING_DERIVES, idx)
            # built-in only (or idempotent custom) => C11 applies; non idempotent `with` bodies are excluded from C11
            if "with" in sl:
                body_name = sbod[(si + vi) % len(sbod)][0]
                if body_name not in ("ident", "trimend"):
                    d.tags = [t if t != "C11" else "C11v" for t in d.tags]


# ------------------------------------------------------------------------------------------------
# other / generic

def build_other(b: Builder):
    idx = 0
    # an inner type that can carry NaN (identity shortcuts in ==, reflexivity assumptions)
    for variant in range(3):
        idx += 1
        d = b.new(OTHER_INNERS["fvec"])
        if variant == 1:
            add_with_sanitizer(d, "{ let mut x = x; x.truncate(2); x }", "mut")
        if variant == 2:
            add_predicate(d, "x.len() < 3", "closure")
        d.tags = [t for t in d.tags if t not in ("C06",)]
        finish_derives(d, ["Debug", "Clone", "PartialEq", "PartialOrd", "AsRef", "Deref", "Borrow", "Into", "IntoIterator"], idx)
    for key in ("opt", "arr"):
        for variant in range(4):
            idx += 1
            d = b.new(OTHER_INNERS[key])
            if key == "opt":
                san, pred, cond, dflt = "x.map(|v| v.wrapping_abs())", "*x != Some(13)", "x.is_some()", ("Some(-4)", ("list", [-4]))
            else:
                san, pred, cond, dflt = "{ let mut x = x; x.sort(); x }", "x[0] <= x[2]", "x[1] != 13", ("[3, 1, 2]", ("list", [3, 1, 2]))
            if variant in (1, 3):
                add_with_sanitizer(d, san, SPELLINGS[variant % 4])
            if variant == 2:
                add_predicate(d, pred, "closure")
            if variant == 3:
                add_custom_validation(d, cond)
            if variant in (0, 3):
                d.default = dflt
            d.tags = [t for t in d.tags if t != "C06"]
            finish_derives(d, ["Debug", "Clone", "Copy", "PartialEq", "Eq", "PartialOrd", "Ord", "Hash", "AsRef", "Deref", "Borrow", "Into", "IntoIterator"], idx)
    for key in ("vec", "point", "cow", "gvec", "gord"):
        inner = OTHER_INNERS[key]
        base = ["Debug", "Clone", "Copy", "PartialEq", "Eq", "PartialOrd", "Ord", "Hash", "AsRef", "Deref", "Borrow", "Into", "Display", "FromStr", "IntoIterator"]
        for variant in range(5):
            idx += 1
            d = b.new(inner)
            if key in ("vec", "gvec"):
                san = ("{ let mut x = x; x.sort(); x.dedup(); x }", None)
                pred = "!x.is_empty()"
                cond = "x.len() != 2"
                dflt = ("vec![3, 1, 3]", ("list", [3, 1, 3]))
                gsan = "{ let mut x = x; x.truncate(2); x }"
                ssan = "{ let mut x = x; x.truncate(2); x }"
                if key == "gvec":
                    san = (ssan, gsan)
                else:
                    san = (san[0], None)
            elif key == "point":
                san = ("nvrt::Point { x: x.x.wrapping_abs(), y: x.y }", None)
                pred = "x.x != x.y"
                cond = "x.y >= 0"
                dflt = ("nvrt::Point { x: -4, y: 2 }", ("list", [-4, 2]))
            elif key == "cow":
                san = ("::std::borrow::Cow::Owned(x.trim().to_string())", None)
                pred = "!x.is_empty()"
                cond = "x.len() != 2"
                dflt = None
            else:  # gord
                san = ("if x < 0 { 0 } else { x }", "if x < T::default() { T::default() } else { x }")
                pred = "*x != 13"
                cond = "*x != 13"
                dflt = ("7", 7)
            if key == "gord":
                # needs Default + PartialOrd for the generic closure bodies
                # odd variants also spell, on the parameter, the very traits the derives add as bounds themselves (FromStr, Display)
                extra_b = " + ::core::str::FromStr + ::core::fmt::Display" if variant in (1, 3) else ""
                d.inner = Inner("T", "i32", "other", generics="<T: Ord + Copy + Default + ::core::fmt::Debug + From<i8>%s>" % extra_b, inst="<i32>", carrier="i32",
                                caps=inner.caps)
                gpred = "*x != T::from(13i8)"
                gcond = gpred
            else:
                gpred = None
                gcond = None
            if variant in (1, 3, 4):
                add_with_sanitizer(d, san[0], SPELLINGS[variant % 4], generic_body=san[1])
            if variant in (2, 3):
                add_predicate(d, pred, SPELLINGS[(variant + 1) % 3], generic_body=gpred)
            if variant == 4:
                if key == "gord":
                    add_custom_validation(d, cond, "path")
                    E = d.custom[1]
                    d.support.append("fn cv_gen<T: Ord + Copy + Default + ::core::fmt::Debug + From<i8>>(x: &T) -> ::core::result::Result<(), %s> { if %s { Ok(()) } else { Err(%s::Bad { seen: format!(\"{:?}\", x), why: \"cond failed\" }) } }" % (E, gcond, E))
                    d.custom = ("cv_gen", E, "o_cv")
                elif key == "gvec":
                    add_custom_validation(d, cond, "path")
                    E = d.custom[1]
                    d.support.append("fn cv_gen<T: ::core::fmt::Debug>(x: &Vec<T>) -> ::core::result::Result<(), %s> { if %s { Ok(()) } else { Err(%s::Bad { seen: format!(\"{:?}\", x), why: \"cond failed\" }) } }" % (E, cond, E))
                    d.custom = ("cv_gen", E, "o_cv")
                    d.inner = Inner("Vec<T>", "Vec<i32>", "other", generics="<T: ::core::fmt::Debug>", inst="<i32>", carrier="list", caps=inner.caps)
                else:
                    add_custom_validation(d, cond, ["path", "closure", "typed"][idx % 3])
            if dflt and variant in (0, 3) and not d.inner.is_generic:
                d.default = dflt
            finish_derives(d, base, idx)
            if key == "gord":
                # `impl TryFrom<T> for W<T>` / `impl From<W<T>> for T` cannot satisfy coherence for a bare type parameter
                d.derives = [t for t in d.derives if t not in ("TryFrom", "From", "Into")]
            if d.inner.is_generic and variant == 4 and key == "gvec":
                pass


def add_twins(b: Builder):
    """plain / const_fn / renamed / generic twins with identical Specs (C01 last sentence)."""
    g = 0
    for ty in ("i32", "u8", "i64", "u128"):
        g += 1
        names = ["Plain%d" % g, "Konst%d" % g, ["Value", "Error", "T", "E"][g % 4]]
        for kind, nm in zip(("plain", "const_fn", "renamed"), names):
            d = b.new(inner_int(ty), tags=["C01", "twin=int%d" % g, "twinkind=" + kind], type_name=nm)
            add_with_sanitizer(d, "x.wrapping_add(1)", "path", const=True)
            d.vals.append(int_bound("greater_or_equal", ty, 3, "lit", d))
            d.vals.append(int_bound("less", ty, 100, "const", d, "HI"))
            add_predicate(d, "*x % 2 == 0", "path", const=True)
            d.derives = ["Debug"]
            if kind == "const_fn":
                d.const_fn = True
                d.const_inputs = [("1", 1), ("2", 2), ("99", 99), ("51", 51), ("3", 3)]
    for ty in FLOAT_TYPES:
        g += 1
        for kind, nm in zip(("plain", "const_fn", "renamed"), ["PlainF%d" % g, "KonstF%d" % g, ["H", "V"][g % 2]]):
            d = b.new(inner_float(ty), tags=["C01", "twin=float%d" % g, "twinkind=" + kind], type_name=nm)
            add_with_sanitizer(d, "x + 0.0", "path", const=True)
            d.vals.append(Vld("finite"))
            d.vals.append(float_bound("greater", ty, "-1.5", None, Fraction(-3, 2), d))
            d.vals.append(float_bound("less_or_equal", ty, "64.0", None, Fraction(64), d))
            d.derives = ["Debug"]
            if kind == "const_fn":
                d.const_fn = True
                d.const_inputs = [("-1.5", float_denote(ty, Fraction(-3, 2))), ("64.0", float_denote(ty, Fraction(64))),
                                  ("-0.0", float_denote(ty, "NEGZERO")), ("65.0", float_denote(ty, Fraction(65)))]
    # generic twin of an integer declaration (both use a predicate so the error variant names coincide)
    g += 1
    d = b.new(inner_int("i32"), tags=["C01", "twin=gen%d" % g, "twinkind=plain"], type_name="PlainG")
    add_with_sanitizer(d, "if x < 0 { 0 } else { x }", "closure")
    add_predicate(d, "*x != 13", "closure")
    d.derives = ["Debug"]
    inner = Inner("T", "i32", "other", generics="<T: Ord + Copy + Default + From<i8>>", inst="<i32>", carrier="i32", caps=OTHER_INNERS["gord"].caps)
    d = b.new(inner, tags=["C01", "twin=gen%d" % g, "twinkind=generic"], type_name="GenericG")
    add_with_sanitizer(d, "if x < 0 { 0 } else { x }", "closure", generic_body="if x < T::default() { T::default() } else { x }")
    add_predicate(d, "*x != 13", "closure", generic_body="*x != T::from(13i8)")
    d.derives = ["Debug"]


def build(tier, seed):
    b = Builder("c", tier, seed)
    build_int(b)
    build_float(b)
    build_string(b)
    build_other(b)
    add_twins(b)
    return b.decls
