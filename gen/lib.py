"""Library of user functions (`with` sanitizers, predicates, custom validators) and their
oracle shims. The same Rust expression is emitted twice: once inside the attribute (spelled as
path / closure / typed closure / mut closure) and once as a plain fn the oracle shim calls, so the
oracle never depends on how the macro splices the tokens."""
from .model import Decl, San, Vld

SPELLINGS = ("path", "closure", "typed", "mut")


def _ty(d: Decl):
    return d.inner.conc_ty


def add_with_sanitizer(d: Decl, body: str, spelling="path", const=False, generic_body=None):
    """body: Rust expression over owned `x` of the inner type, yielding the inner type."""
    i = len(d.sans)
    ty = _ty(d)
    cf = "const " if const else ""
    d.support.append(f"{cf}fn san_impl{i}(x: {ty}) -> {ty} {{ {body} }}")
    d.support.append(f"fn o_san{i}(v: &nvrt::Value) -> nvrt::Value {{ let x: {ty} = nvrt::Conv::from_value(v); nvrt::Conv::to_value(&san_impl{i}(x)) }}")
    b = generic_body or body
    if d.inner.is_generic and spelling in ("path", "typed"):
        spelling = "closure"
    arg = {"path": f"san_impl{i}", "closure": f"|x| {b}", "typed": f"|x: {d.inner.decl_ty}| {b}", "mut": f"|mut x| {{ x = {b}; x }}"}[spelling]
    d.sans.append(San("with", arg, f"o_san{i}"))


def add_predicate(d: Decl, body: str, spelling="path", const=False, generic_body=None):
    """body: Rust bool expression over `x: &Inner` (`&str` for the string family)."""
    i = len(d.vals)
    ty = _ty(d)
    rty = "&str" if d.inner.fam == "string" else f"&{ty}".replace("'static", "'_")
    cf = "const " if const else ""
    d.support.append(f"{cf}fn pred_impl{i}(x: {rty}) -> bool {{ {body} }}")
    call = f"pred_impl{i}(x.as_str())" if d.inner.fam == "string" else f"pred_impl{i}(&x)"
    d.support.append(f"fn o_pred{i}(v: &nvrt::Value) -> bool {{ let x: {ty} = nvrt::Conv::from_value(v); {call} }}")
    b = generic_body or body
    if d.inner.is_generic and spelling in ("path", "typed"):
        spelling = "closure"
    dty = "&str" if d.inner.fam == "string" else f"&{d.inner.decl_ty}"
    arg = {"path": f"pred_impl{i}", "closure": f"|x| {b}", "typed": f"|x: {dty}| {b}", "mut": f"|x| {b}"}[spelling]
    d.vals.append(Vld("predicate", arg, None, f"o_pred{i}"))


def add_custom_validation(d: Decl, cond: str, spelling="path", err_name=None):
    """custom `with = f, error = E`: Ok iff cond (over `x: &Inner` / `&str`)."""
    ty = _ty(d)
    rty = "&str" if d.inner.fam == "string" else f"&{ty}".replace("'static", "'_")
    E = err_name or f"{d.type_name}CustomErr"
    d.support.append(
        f"#[derive(Debug, Clone, PartialEq)]\npub enum {E} {{ Bad {{ seen: String, why: &'static str }} }}\n"
        f"impl ::core::fmt::Display for {E} {{ fn fmt(&self, f: &mut ::core::fmt::Formatter<'_>) -> ::core::fmt::Result {{ write!(f, \"custom:{{:?}}\", self) }} }}\n"
        f"impl ::std::error::Error for {E} {{}}")
    d.support.append(f"fn cv_impl(x: {rty}) -> ::core::result::Result<(), {E}> {{ if {cond} {{ Ok(()) }} else {{ Err({E}::Bad {{ seen: format!(\"{{:?}}\", x), why: \"cond failed\" }}) }} }}")
    call = "cv_impl(x.as_str())" if d.inner.fam == "string" else "cv_impl(&x)"
    d.support.append(f"fn o_cv(v: &nvrt::Value) -> ::core::result::Result<(), String> {{ let x: {ty} = nvrt::Conv::from_value(v); {call}.map_err(|e| format!(\"{{:?}}\", e)) }}")
    dty = "&str" if d.inner.fam == "string" else f"&{d.inner.decl_ty}"
    body = f"if {cond} {{ Ok(()) }} else {{ Err({E}::Bad {{ seen: format!(\"{{:?}}\", x), why: \"cond failed\" }}) }}"
    # only the documented path form: a closure for `validate(with = ..)` is UNSPECIFIED (README shows a function;
    # the macro splices `#with(value)` so a closure does not compile)
    arg = "cv_impl"
    d.custom = (arg, E, "o_cv")


# ---- bodies per family -------------------------------------------------------------------------

def int_sanitizer_bodies(ty):
    from .model import int_range
    lo, hi = int_range(ty)
    a, b = (0, min(100, hi))
    bodies = [
        ("wadd1", "x.wrapping_add(1)", True),
        ("clamp", f"if x < {a} {{ {a} }} else if x > {b} {{ {b} }} else {{ x }}", True),
        ("ident", "x", True),
        ("half", "x / 2", True),
    ]
    if lo < 0:
        bodies.append(("wabs", "x.wrapping_abs()", True))
    return bodies


def int_predicate_bodies(ty):
    return [("even", "*x % 2 == 0", True), ("nonzero", "*x != 0", True), ("small", "*x < 50", True)]


def float_sanitizer_bodies(ty):
    return [
        ("clamp01", "x.clamp(0.0, 1.0)", False),
        ("abs", "x.abs()", False),
        ("addzero", "x + 0.0", True),
        ("nan2zero", "if x.is_nan() { 0.0 } else { x }", False),
        ("ident", "x", True),
    ]


def float_predicate_bodies(ty):
    return [("integral", "x.fract() == 0.0", False), ("notnan", "!x.is_nan()", False), ("positive", "*x > 0.0", True)]


def string_sanitizer_bodies():
    return [
        ("x2space", "x.replace('x', \" \")", False),
        ("take3", "x.chars().take(3).collect()", False),
        ("trimend", "x.trim_end().to_string()", False),
        ("dup", "format!(\"{x}{x}\")", False),
        ("ident", "x", False),
        # a body with an early `return`: spelled as a closure it must still only return from the closure
        ("early_return", "{ if x.starts_with('A') { return x; } x.replace('x', \" \") }", False),
    ]


def string_predicate_bodies():
    return [("has_a", "x.contains('a')", False), ("alnum", "x.chars().all(char::is_alphanumeric)", False),
            ("no_lead_space", "!x.starts_with(' ')", False)]
