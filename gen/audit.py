"""Offline checker over the expansion auditor's event log (C05 structural rules)."""
import json, os
from .common import *

MUT_TRAITS = ("DerefMut", "AsMut", "BorrowMut", "IndexMut")
# functions allowed to construct the newtype directly
CONSTRUCT_WHITELIST = {"try_new", "new", "new_unchecked", "clone"}
PUB_API = {"try_new", "new", "into_inner", "new_unchecked"}


def check_module(m, expect):
    """expect: {"vis": str, "has_validation": bool, "new_unchecked": bool}; returns (violations, facts)"""
    v = []
    notes = []
    T = m["type_name"]

    def bad(sig, detail):
        v.append({"signature": "expansion:" + sig, "detail": detail})

    if m["unparsed"]:
        return [{"signature": "INCONCLUSIVE", "detail": "syn could not parse: %s" % m["unparsed"][:1]}], {}
    if m["mod_vis"] != "":
        bad("module-not-private", "mod %s is `%s`" % (m["module"], m["mod_vis"]))
    if not m["doc_hidden"]:
        bad("module-not-doc-hidden", m["module"])
    st = [s for s in m["structs"] if s["name"] == T]
    if len(st) != 1:
        bad("newtype-struct-missing", str([s["name"] for s in m["structs"]]))
    else:
        for f in st[0]["fields"]:
            if f["vis"] != "":
                bad("inner-field-visible", "field is `%s`" % f["vis"])
        if len(st[0]["fields"]) != 1:
            bad("newtype-has-extra-fields", str(st[0]["fields"]))
    # re-exports: only T, its error and parse error, with exactly the declared visibility
    allowed = {"%s::%s" % (m["module"], T), "%s::%sError" % (m["module"], T), "%s::%sParseError" % (m["module"], T)}
    seen_t = False
    for r in m["reexports"]:
        if r["path"] not in allowed:
            bad("unexpected-reexport", r["path"])
        if r["vis"] != expect["vis"]:
            bad("reexport-visibility-differs-from-declared", "%s is `%s`, declared `%s`" % (r["path"], r["vis"], expect["vis"]))
        if r["path"].endswith("::" + T):
            seen_t = True
    if not seen_t:
        bad("type-not-reexported", T)
    for it in m["other_items"]:
        if it["kind"] == "use" and it.get("vis") not in ("",):
            bad("pub-use-inside-module", str(it))
        if it["kind"] == "mod" and it["name"] != "tests":
            bad("unexpected-nested-module", it["name"])
    has_unchecked = False
    n_construct = 0
    for im in m["impls"]:
        tr = im["trait"] or ""
        tr_last = tr.split("<")[0].split("::")[-1]
        is_for_newtype = im["self_ty"].replace(" ", "").startswith(T) or im["self_ty"].replace(" ", "").startswith("&")
        if tr_last in MUT_TRAITS:
            bad("mutable-view-impl:" + tr_last, "impl %s for %s" % (tr, im["self_ty"]))
        if tr_last == "IntoIterator" and "&mut" in im["self_ty"].replace(" ", "").replace("&'", "&").replace("mut", "mut") and "mut" in im["self_ty"]:
            bad("mutable-view-impl:IntoIterator-for-&mut", im["self_ty"])
        # (nightly's #[derive(Clone, Copy)] expands to `unsafe impl ::core::clone::TrivialClone`: a fn-less std marker trait)
        if im["unsafe"] and not (tr_last == "TrivialClone" and not im["fns"]):
            bad("unsafe-impl", "%s for %s" % (tr, im["self_ty"]))
        for f in im["fns"]:
            name = f["name"]
            self_is_newtype = im["self_ty"].replace(" ", "").split("<")[0] == T
            if f["receiver"] in ("&mut self", "mut self") and self_is_newtype and f["receiver"] == "&mut self":
                bad("method-with-&mut-self-receiver", "%s::%s" % (tr or T, name))
            if self_is_newtype and "&mut" in f["ret"].replace(" ", "").replace("&'", "&"):
                if "Formatter" not in f["ret"]:
                    bad("fn-returns-&mut", "%s::%s -> %s" % (tr or T, name, f["ret"]))
            if f["unsafe_blocks"]:
                bad("unsafe-block", "%s::%s" % (tr or T, name))
            for e in f["events"]:
                # the generated code never needs to borrow the field mutably or assign to it, whatever the receiver
                if "mut_borrow_of_field" in e and e["mut_borrow_of_field"].replace(" ", "") in ("self", "(*self)", "this", "value", "t", "s"):
                    bad("mutable-borrow-of-inner-field", "%s::%s takes &mut %s.0" % (tr or T, name, e["mut_borrow_of_field"]))
                if "assign_to_field" in e:
                    bad("assignment-to-inner-field", "%s::%s assigns to %s.0" % (tr or T, name, e["assign_to_field"]))
            if self_is_newtype and f["receiver"] == "mut self" and T in f["ret"].replace("Self", T):
                bad("by-value-mut-receiver-returning-the-type", "%s::%s(mut self) -> %s" % (tr or T, name, f["ret"]))
            for mp in f.get("mut_ref_params", []):
                if T in mp.replace("Self", T) and "Formatter" not in mp:
                    bad("fn-takes-&mut-newtype", "%s::%s(%s)" % (tr or T, name, mp))
            if f["transmute"]:
                bad("transmute", "%s::%s" % (tr or T, name))
            # a public fn outside the documented API is not a violation by itself: if it yields the type it must do so
            # through a white-listed constructor (rule c catches direct constructions; every fn of the module is audited)
            if not tr and f["vis"] != "" and name not in PUB_API:
                notes.append("undocumented pub fn %s" % name)
            if name == "new_unchecked":
                has_unchecked = True
                if not f["unsafe"]:
                    bad("new_unchecked-not-unsafe", "")
            constructs = [i for i, e in enumerate(f["events"]) if "construct" in e]
            if constructs:
                n_construct += len(constructs)
                if name not in CONSTRUCT_WHITELIST:
                    bad("direct-construction-outside-whitelist", "%s::%s constructs %s directly" % (tr or T, name, T))
                elif name == "try_new":
                    # name-agnostic: helpers are recognised by "validate" / "sanitize" in the callee name; if the helpers were
                    # renamed beyond recognition this is only noted (C01 is the behavioural authority on "runs the guards")
                    calls = [(i, e["call"]) for i, e in enumerate(f["events"]) if "call" in e]
                    vidx = [i for i, c in calls if "validate" in c.lower()]
                    sidx = [i for i, c in calls if "sanitize" in c.lower()]
                    if vidx and min(constructs) < max(vidx):
                        bad("try_new-constructs-before-validate", str(f["events"])[:300])
                    if not vidx or not sidx:
                        notes.append("try_new: guard helper calls not recognised by name: %s" % [c for _, c in calls])
                elif name == "new":
                    calls = [e["call"] for e in f["events"] if "call" in e]
                    if not any("sanitize" in c.lower() for c in calls):
                        notes.append("new: sanitize helper call not recognised by name: %s" % calls)
                    if expect["has_validation"]:
                        bad("new-emitted-alongside-validators", "")
                elif name == "clone":
                    if tr_last != "Clone":
                        bad("direct-construction-outside-whitelist", "inherent clone")
    for it in m["other_items"]:
        if it["kind"] == "fn":
            f = it["detail"]
            if any("construct" in e for e in f["events"]):
                bad("direct-construction-outside-whitelist", "free fn %s" % f["name"])
            if f["vis"] != "":
                notes.append("pub free fn %s" % f["name"])
    if has_unchecked != bool(expect["new_unchecked"]):
        bad("new_unchecked-presence-differs-from-flag", "present=%s flag=%s" % (has_unchecked, expect["new_unchecked"]))
    inherent = [f["name"] for im in m["impls"] if not im["trait"] for f in im["fns"]]
    if expect["has_validation"] and "new" in inherent:
        bad("new-emitted-alongside-validators", "")
    if expect["has_validation"] and "try_new" not in inherent:
        bad("try_new-missing", "")
    facts = {"impls": len(m["impls"]), "constructions": n_construct, "fns": sum(len(im["fns"]) for im in m["impls"]), "notes": notes}
    return v, facts


def expand_and_audit(name, modules, expects, features, log=None, debug_assertions=True):
    """modules: [(mod_name, text)]; expects: {type_name: {...}}. Returns (event_modules, error)"""
    d = os.path.join(WORK, name)
    feats = ", ".join('"%s"' % f for f in features)
    write_if_changed(os.path.join(d, "Cargo.toml"),
                     '[package]\nname = "auditee"\nversion = "0.1.0"\nedition = "2021"\n\n[dependencies]\nnutype = { path = "%s/nutype", features = [%s] }\n'
                     'serde = { version = "1.0.150", features = ["derive"] }\narbitrary = "1.3.0"\nregex = "1"\n\n[workspace]\n\n[profile.dev]\ndebug = 0\n%s' % (REPO, feats, "" if debug_assertions else "debug-assertions = false\n\n[profile.dev.build-override]\ndebug-assertions = false\n"))
    if not os.path.exists(os.path.join(d, "Cargo.lock")):
        import shutil
        shutil.copy(os.path.join(REPO, "Cargo.lock"), os.path.join(d, "Cargo.lock"))
    env = dict(ENV)
    env["CARGO_TARGET_DIR"] = os.path.join(WORK, "target-nightly")
    modules = list(modules)
    dropped = []
    import re as _re
    for _round in range(4):
        head = "#![allow(dead_code, unused_imports, non_snake_case, non_camel_case_types)]\n"
        src, spans, line = head, [], 2
        for mn, mt in modules:
            text = "pub mod %s {\n%s\n}\n" % (mn, mt)
            n = text.count("\n")
            spans.append((line, line + n - 1, mn))
            src += text
            line += n
        write_if_changed(os.path.join(d, "src", "lib.rs"), src)
        rc, out, err, dt = run(["cargo", "+nightly", "rustc", "--offline", "--lib", "-q", "--", "-Zunpretty=expanded"], cwd=d, env=env, timeout=1500)
        if rc == 0 and "mod __nutype_" in out:
            break
        # a declaration the (possibly changed) macro refuses cannot be audited: drop the modules the errors point into and expand the rest
        bad = set()
        for m_ in _re.finditer(r"--> src/lib\.rs:(\d+):", err):
            ln = int(m_.group(1))
            for (a, b_, mn) in spans:
                if a <= ln <= b_:
                    bad.add(mn)
        if not bad or _round == 3:
            return None, "expansion failed rc=%d: %s" % (rc, err[-1500:])
        dropped += sorted(bad)
        if log:
            log("expansion: %d module(s) do not expand and are left out of the audit: %s" % (len(bad), ", ".join(sorted(bad))[:200]))
        modules = [(mn, mt) for (mn, mt) in modules if mn not in bad]
    exp_path = os.path.join(d, "expanded.rs")
    with open(exp_path, "w") as f:
        f.write(out)
    tool = os.path.join(WORK, "target-tools", "release", "nvaudit")
    if not os.path.exists(tool):
        rc2, o2, e2, _ = run(["cargo", "build", "--offline", "--release"], cwd=os.path.join(VERIF, "auditor"), env=dict(ENV, CARGO_TARGET_DIR=os.path.join(WORK, "target-tools")))
        if rc2 != 0:
            return None, "auditor build failed: " + e2[-800:]
    log_path = os.path.join(d, "events.json")
    rc, o, e, _ = run([tool, exp_path, log_path])
    if rc != 0:
        try:
            return None, "auditor could not parse the expansion: " + open(log_path).read()[:500]
        except Exception:
            return None, "auditor failed: " + e[-500:]
    with open(log_path) as f:
        return json.load(f)["modules"], None
