"""Emit one Rust module per declaration: support items, the #[nutype] declaration, and the
object-safe glue (impl nvrt::Subject) the monitors drive."""
from .model import Decl, Vld


def _vname_fn(d: Decl):
    T = d.type_name
    if d.custom:
        return "fn vname(e: &%s) -> String { nvrt::dbg_name(e) }" % d.custom[1], d.custom[1]
    if not d.vals:
        return "", None
    arms = "\n".join('            %sError::%s => "%s".to_string(),' % (T, v.variant, v.variant) for v in d.vals)
    # wildcard-free: compiles iff the generated enum has exactly one variant per declared validator
    return ("fn vname(e: &%sError) -> String {\n        match e {\n%s\n        }\n    }" % (T, arms)), T + "Error"


def _mk(d: Decl):
    """expression building a TT from `x: Inner` inside guarded closure; returns Option<TT>"""
    if d.new_unchecked:
        return _mk_checked(d) + "\n    #[allow(unused_unsafe)]\n    fn mku(raw: &nvrt::Value) -> Option<TT> { let x: Inner = nvrt::Conv::from_value(raw); Some(unsafe { TT::new_unchecked(x) }) }"
    return _mk_checked(d)


def _mk_checked(d: Decl):
    if d.has_validation:
        return "fn mk(raw: &nvrt::Value) -> Option<TT> { let x: Inner = nvrt::Conv::from_value(raw); match nvrt::guarded(move || TT::try_new(x)) { Ok(Ok(t)) => Some(t), _ => None } }"
    return "fn mk(raw: &nvrt::Value) -> Option<TT> { let x: Inner = nvrt::Conv::from_value(raw); nvrt::guarded(move || TT::new(x)).ok() }"


def emit_subject_methods(d: Decl):
    T = d.type_name
    inner = d.inner
    der = set(d.derives)
    caps = inner.caps
    m = []
    is_str = inner.fam == "string"
    hv = d.has_validation
    if any(t.startswith("poke=") for t in d.tags):
        m.append("fn poke(&self, v: i64) -> bool { LIMIT_CELL.store(v, ::core::sync::atomic::Ordering::SeqCst); true }")
    # ---- ctor
    if hv:
        m.append("fn ctor(&self, raw: &nvrt::Value) -> nvrt::Obs { let x: Inner = nvrt::Conv::from_value(raw); nvrt::obs(move || TT::try_new(x), inner_of, vname) }")
    else:
        m.append("fn ctor(&self, raw: &nvrt::Value) -> nvrt::Obs { let x: Inner = nvrt::Conv::from_value(raw); nvrt::obs_ok(move || TT::new(x), inner_of) }")
    if is_str:
        if hv:
            m.append("fn ctor_str(&self, raw: &str) -> Option<nvrt::Obs> { Some(nvrt::obs(move || TT::try_new(raw), inner_of, vname)) }")
            m.append("""fn ctor_into_variants(&self, raw: &str) -> Vec<(&'static str, nvrt::Obs)> {
            let b: Box<str> = raw.into(); let c: ::std::borrow::Cow<'_, str> = ::std::borrow::Cow::Borrowed(raw); let r: &String = &raw.to_string();
            let mut v = vec![("Box<str>", nvrt::obs(move || TT::try_new(b), inner_of, vname)), ("Cow<str>", nvrt::obs(move || TT::try_new(c), inner_of, vname)),
                             ("&String", nvrt::obs(move || TT::try_new(r), inner_of, vname))];
            let mut it = raw.chars(); if let (Some(ch), None) = (it.next(), it.next()) { v.push(("char", nvrt::obs(move || TT::try_new(ch), inner_of, vname))); }
            v
        }""")
        else:
            m.append("fn ctor_str(&self, raw: &str) -> Option<nvrt::Obs> { Some(nvrt::obs_ok(move || TT::new(raw), inner_of)) }")
            m.append("""fn ctor_into_variants(&self, raw: &str) -> Vec<(&'static str, nvrt::Obs)> {
            let b: Box<str> = raw.into(); let c: ::std::borrow::Cow<'_, str> = ::std::borrow::Cow::Borrowed(raw); let r: &String = &raw.to_string();
            let mut v = vec![("Box<str>", nvrt::obs_ok(move || TT::new(b), inner_of)), ("Cow<str>", nvrt::obs_ok(move || TT::new(c), inner_of)), ("&String", nvrt::obs_ok(move || TT::new(r), inner_of))];
            let mut it = raw.chars(); if let (Some(ch), None) = (it.next(), it.next()) { v.push(("char", nvrt::obs_ok(move || TT::new(ch), inner_of))); }
            v
        }""")
    infall = "|e: &::core::convert::Infallible| match *e {}"
    if "TryFrom" in der:
        vn = "vname" if hv else infall
        m.append("fn try_from_inner(&self, raw: &nvrt::Value) -> Option<nvrt::Obs> { let x: Inner = nvrt::Conv::from_value(raw); Some(nvrt::obs(move || <TT as ::core::convert::TryFrom<Inner>>::try_from(x), inner_of, %s)) }" % vn)
        if is_str:
            m.append("fn try_from_str(&self, raw: &str) -> Option<nvrt::Obs> { Some(nvrt::obs(move || <TT as ::core::convert::TryFrom<&str>>::try_from(raw), inner_of, %s)) }" % vn)
    if "From" in der and not hv:
        m.append("fn from_inner(&self, raw: &nvrt::Value) -> Option<nvrt::Obs> { let x: Inner = nvrt::Conv::from_value(raw); Some(nvrt::obs_ok(move || <TT as ::core::convert::From<Inner>>::from(x), inner_of)) }")
        if is_str:
            m.append("fn from_str_ref(&self, raw: &str) -> Option<nvrt::Obs> { Some(nvrt::obs_ok(move || <TT as ::core::convert::From<&str>>::from(raw), inner_of)) }")
    if "FromStr" in der:
        if is_str:
            vn = "vname" if hv else infall
            m.append("fn parse_string(&self, raw: &str) -> Option<nvrt::Obs> { Some(nvrt::obs(move || raw.parse::<TT>(), inner_of, %s)) }" % vn)
        else:
            arms = "%sParseError::Parse(pe) => nvrt::ParseObs::Parse { inner_dbg: format!(\"{:?}\", pe), display }," % T
            if hv:
                arms += "\n                    %sParseError::Validate(ve) => nvrt::ParseObs::Validate { variant: vname(&ve), display_inner: ve.to_string(), display }," % T
            m.append("""fn parse(&self, raw: &str) -> Option<nvrt::ParseObs> {
            Some(match nvrt::guarded(|| raw.parse::<TT>()) {
                Err(p) => nvrt::ParseObs::Panic(p),
                Ok(Ok(t)) => nvrt::ParseObs::Ok(inner_of(t)),
                Ok(Err(e)) => { let display = e.to_string(); match e {
                    %s
                } }
            })
        }""" % arms)
            m.append("fn inner_parse(&self, raw: &str) -> Option<Result<nvrt::Value, String>> { Some(raw.parse::<Inner>().map(|v| nvrt::Conv::to_value(&v)).map_err(|e| format!(\"{:?}\", e))) }")
    if "Default" in der and d.default is not None:
        m.append("fn default(&self) -> Option<nvrt::Obs> { Some(match nvrt::guarded(|| <TT as ::core::default::Default>::default()) { Ok(t) => nvrt::Obs::Ok(inner_of(t)), Err(p) => nvrt::Obs::Panic(p) }) }")
    # ---- views
    v = ["let t = mk(raw)?;", "let iv: Inner = mk(raw)?.into_inner();", "let mut v = nvrt::Views::default();",
         "v.stored = Some(nvrt::Conv::to_value(&iv));"]
    if "AsRef" in der:
        if is_str:
            v.append("v.as_ref = Some(nvrt::Value::Str(::core::convert::AsRef::<str>::as_ref(&t).to_string()));")
        else:
            v.append("v.as_ref = Some(nvrt::Conv::to_value(::core::convert::AsRef::<Inner>::as_ref(&t)));")
    if "Deref" in der:
        v.append("v.deref = Some(<Inner as nvrt::Conv>::to_value(::core::ops::Deref::deref(&t)));")
    if "Borrow" in der:
        v.append("v.borrow = Some(nvrt::Conv::to_value(::core::borrow::Borrow::<Inner>::borrow(&t)));")
        if is_str:
            v.append("v.borrow_str = Some(nvrt::Value::Str(::core::borrow::Borrow::<str>::borrow(&t).to_string()));")
    if "Into" in der:
        v.append("v.into = Some(nvrt::Conv::to_value(&<Inner as ::core::convert::From<TT>>::from(mk(raw)?)));")
    if "Clone" in der:
        v.append("v.clone = Some(inner_of(::core::clone::Clone::clone(&t)));")
    if "Copy" in der:
        v.append("{ let c1 = t; let c2 = t; v.copy = Some(inner_of(c1)); let _ = c2; }")
    if "Display" in der:
        v.append("v.display = Some(nvrt::fmt_all(&t));")
        v.append("v.display_inner = nvrt::fmt_all(&iv);")
    if "IntoIterator" in der:
        v.append("v.into_iter = Some(nvrt::iter_dbg(mk(raw)?.into_iter()));")
        v.append("v.ref_iter = Some(nvrt::iter_dbg((&t).into_iter()));")
        v.append("v.inner_iter = nvrt::iter_dbg(iv.clone().into_iter());")
    if {"Hash", "Eq", "PartialEq", "Borrow"} <= der:
        key = "iv.as_str()" if is_str else "&iv"
        v.append("{ let mut hm = ::std::collections::HashMap::new(); hm.insert(mk(raw)?, 1u8); v.hashmap_lookup = Some(hm.get(%s) == Some(&1u8)); }" % key)
    if {"Ord", "PartialOrd", "Eq", "PartialEq", "Borrow"} <= der and "Ord" in caps:
        key = "iv.as_str()" if is_str else "&iv"
        v.append("{ let mut bm = ::std::collections::BTreeMap::new(); bm.insert(mk(raw)?, 1u8); v.btreemap_lookup = Some(bm.get(%s) == Some(&1u8)); }" % key)
    v.append("let _ = &t; Some(v)")
    m.append("fn views(&self, raw: &nvrt::Value) -> Option<nvrt::Views> {\n            " + "\n            ".join(v) + "\n        }")
    if d.new_unchecked:
        # the same observations on values built with `unsafe { new_unchecked }` (valid or not: views must expose whatever is stored);
        # map lookups are left out (they need a lawful order, which an invalid value need not have)
        vu = [ln.replace("mk(raw)", "mku(raw)") for ln in v if "hashmap_lookup" not in ln and "btreemap_lookup" not in ln]
        m.append("fn views_unchecked(&self, raw: &nvrt::Value) -> Option<nvrt::Views> {\n            " + "\n            ".join(vu) + "\n        }")
    # ---- comparisons
    c = ["let ta = mk(a)?; let tb = mk(b)?;", "let ia: Inner = mk(a)?.into_inner(); let ib: Inner = mk(b)?.into_inner();",
         "let mut o = nvrt::CmpObs::default();"]
    any_cmp = False
    if "PartialEq" in der:
        c.append("o.outer.eq = Some(nvrt::side_eq(&ta, &tb)); o.inner.eq = Some(nvrt::side_eq(&ia, &ib));")
        c.append("o.outer.eq_same = Some(nvrt::side_eq(&ta, &ta)); o.inner.eq_same = Some(nvrt::side_eq(&ia, &ia));")
        any_cmp = True
    if "PartialOrd" in der and "PartialEq" in der:
        c.append("o.outer.pord = Some(nvrt::side_pord(&ta, &tb)); o.inner.pord = Some(nvrt::side_pord(&ia, &ib));")
        any_cmp = True
    if {"Ord", "PartialOrd", "Eq", "PartialEq"} <= der:
        c.append("o.outer.ord = Some(nvrt::side_ord(&ta, &tb));")
        if "Ord" in caps:
            c.append("o.inner.ord = Some(nvrt::side_ord(&ia, &ib));")
        any_cmp = True
    if "Hash" in der:
        c.append("o.outer.hash_a = Some(nvrt::side_hash(&ta)); o.inner.hash_a = Some(nvrt::side_hash(&ia));")
        if is_str:
            c.append("o.hash_borrowed_a = Some(nvrt::side_hash::<str>(ia.as_str()));")
        any_cmp = True
    if "Clone" in der:
        c.append("{ let mut c = ::core::clone::Clone::clone(&tb); ::core::clone::Clone::clone_from(&mut c, &ta); o.clone_from = Some((inner_of(c), nvrt::Conv::to_value(&ia))); }")
        any_cmp = True
    c.append("let _ = (&ta, &tb, &ia, &ib); Some(o)")
    if any_cmp:
        m.append("fn cmp2(&self, a: &nvrt::Value, b: &nvrt::Value) -> Option<nvrt::CmpObs> {\n            " + "\n            ".join(c) + "\n        }")
        if d.new_unchecked:
            cu = [ln.replace("mk(a)", "mku(a)").replace("mk(b)", "mku(b)") for ln in c if "side_ord" not in ln]
            m.append("fn cmp2_unchecked(&self, a: &nvrt::Value, b: &nvrt::Value) -> Option<nvrt::CmpObs> {\n            " + "\n            ".join(cu) + "\n        }")
    if {"Ord", "PartialOrd", "Eq", "PartialEq"} <= der:
        m.append("""fn sort(&self, raws: &[nvrt::Value]) -> Option<Result<Vec<nvrt::Value>, String>> {
            let mut v: Vec<TT> = Vec::new();
            for r in raws { v.push(mk(r)?); }
            Some(nvrt::guarded(move || { v.sort(); v }).map(|v| v.into_iter().map(inner_of).collect()))
        }""")
        m.append("""fn btree(&self, raws: &[nvrt::Value]) -> Option<Result<(usize, usize), String>> {
            let mut vals: Vec<TT> = Vec::new();
            let mut probes: Vec<TT> = Vec::new();
            for r in raws { vals.push(mk(r)?); probes.push(mk(r)?); }
            Some(nvrt::guarded(move || {
                let mut set = ::std::collections::BTreeSet::new();
                let n = vals.len();
                for t in vals { set.insert(t); }
                let found = probes.iter().filter(|p| set.contains(*p)).count();
                (found, n)
            }))
        }""")
    # ---- const evaluation
    if d.const_fn and d.const_inputs:
        items = []
        for i, (lit, den) in enumerate(d.const_inputs):
            from .model import value_expr
            if hv:
                et = d.custom[1] if d.custom else T + "Error"
                items.append("{ const C: ::core::result::Result<TT, %s> = TT::try_new(%s); (%s, match C { Ok(t) => nvrt::Obs::Ok(inner_of(t)), Err(e) => nvrt::Obs::Err { variant: vname(&e), display: e.to_string() } }) }" % (et, lit, value_expr(inner, den)))
            else:
                items.append("{ const C: TT = TT::new(%s); (%s, nvrt::Obs::Ok(inner_of(C))) }" % (lit, value_expr(inner, den)))
        m.append("fn const_results(&self) -> Vec<(nvrt::Value, nvrt::Obs)> { vec![%s] }" % ", ".join(items))
    return m


def emit_serde_arb(d: Decl):
    """extra (methods, items) for declarations deriving Serialize+Deserialize and/or Arbitrary"""
    der = set(d.derives)
    caps = d.inner.caps
    methods, items = [], []
    if {"Serialize", "Deserialize"} <= der:
        ord_ok = "Ord" in caps
        rder = "::serde::Serialize, ::serde::Deserialize, Debug" + (", PartialEq, Eq, PartialOrd, Ord" if ord_ok else "")
        items.append('#[derive(%s)]\n#[serde(rename = "%s")]\npub struct RefT(pub Inner);' % (rder, d.type_name))
        items.append("impl nvrt::serde_mon::SerdeGlue for G { type T = TT; type R = RefT; type I = Inner; fn t_inner(t: TT) -> nvrt::Value { inner_of(t) } "
                     "fn r_inner(r: RefT) -> nvrt::Value { nvrt::Conv::to_value(&r.0) } fn t_make(raw: &nvrt::Value) -> Option<TT> { mk(raw) } fn r_make(i: Inner) -> RefT { RefT(i) } }")
        t_ord = {"Ord", "PartialOrd", "Eq", "PartialEq"} <= der and ord_ok
        key_de = "nvrt::serde_mon::de_key::<G>(f, b)" if t_ord else "return None"
        key_ref = "nvrt::serde_mon::de_key_ref::<G>(f, b)" if t_ord else "return None"
        methods.append("fn de(&self, f: nvrt::Fmt, p: nvrt::Pos, b: &[u8]) -> Option<nvrt::DeObs> { Some(match p { nvrt::Pos::MapKey => %s, _ => nvrt::serde_mon::de::<G>(f, p, b) }) }" % key_de)
        methods.append("fn de_ref(&self, f: nvrt::Fmt, p: nvrt::Pos, b: &[u8]) -> Option<Result<Vec<nvrt::Value>, String>> { Some(match p { nvrt::Pos::MapKey => %s, _ => nvrt::serde_mon::de_ref::<G>(f, p, b) }) }" % key_ref)
        if ord_ok:
            methods.append("fn docs_for(&self, f: nvrt::Fmt, p: nvrt::Pos, raw: &nvrt::Value) -> Option<Vec<Vec<u8>>> { Some(nvrt::serde_mon::docs_for::<G>(f, p, raw)) }")
        else:
            methods.append("fn docs_for(&self, f: nvrt::Fmt, p: nvrt::Pos, raw: &nvrt::Value) -> Option<Vec<Vec<u8>>> { if p == nvrt::Pos::MapKey { return None; } Some(nvrt::serde_mon::docs_for_noord::<G>(f, p, raw)) }")
        methods.append("fn ser(&self, f: nvrt::Fmt, raw: &nvrt::Value) -> Option<nvrt::SerObs> { nvrt::serde_mon::ser::<G>(f, raw) }")
        methods.append("fn ser_trace(&self, raw: &nvrt::Value) -> Option<(Vec<String>, Vec<String>)> { nvrt::serde_mon::trace::<G>(raw) }")
        methods.append("fn de_probe(&self) -> Option<(Vec<String>, Vec<(String, nvrt::Value)>)> { Some(nvrt::serde_mon::probe::<G>()) }")
        methods.append("fn de_in_place(&self, f: nvrt::Fmt, b: &[u8], seed: &nvrt::Value, vec: bool) -> Option<(Result<(), String>, Vec<nvrt::Value>)> { nvrt::serde_mon::de_in_place::<G>(f, b, seed, vec) }")
        if d.inner.fam in ("int", "float", "string"):
            methods.append("fn de_seq_form(&self, raw: &nvrt::Value) -> Option<nvrt::DeObs> { Some(nvrt::serde_mon::seq_form::<G>(raw)) }")
    if "Arbitrary" in der:
        methods.append("""fn arb(&self, bytes: &[u8]) -> Option<nvrt::ArbObs> {
            Some(match nvrt::guarded(|| { let mut u = ::arbitrary::Unstructured::new(bytes); <TT as ::arbitrary::Arbitrary>::arbitrary(&mut u) }) {
                Err(p) => nvrt::ArbObs::Panic(p),
                Ok(Err(e)) => nvrt::ArbObs::ArbErr(e.to_string()),
                Ok(Ok(t)) => nvrt::ArbObs::Ok(inner_of(t)),
            })
        }""")
    if "Arbitrary" in der:
        methods.append("""fn arb_take_rest(&self, bytes: &[u8]) -> Option<nvrt::ArbObs> {
            Some(match nvrt::guarded(|| { let u = ::arbitrary::Unstructured::new(bytes); <TT as ::arbitrary::Arbitrary>::arbitrary_take_rest(u) }) {
                Err(p) => nvrt::ArbObs::Panic(p),
                Ok(Err(e)) => nvrt::ArbObs::ArbErr(e.to_string()),
                Ok(Ok(t)) => nvrt::ArbObs::Ok(inner_of(t)),
            })
        }""")
    return methods, items


def emit_module(d: Decl, extra_methods=None, extra_items=None):
    T = d.type_name
    vname, _ = _vname_fn(d)
    sm, si = emit_serde_arb(d)
    methods = emit_subject_methods(d) + sm + (extra_methods or [])
    extra_items = si + list(extra_items or [])
    lines = []
    lines.append("pub mod %s {" % d.id)
    lines.append("    #![allow(dead_code, unused_imports, unused_variables, unused_mut, clippy::all)]")
    lines.append("    use nutype::nutype;")
    for s in d.support:
        lines.append("    " + s.replace("\n", "\n    "))
    lines.append("    // DECL-BEGIN %s" % d.id)
    lines.append("    " + d.decl_text().replace("\n", "\n    "))
    lines.append("    // DECL-END %s" % d.id)
    lines.append("    type TT = %s%s;" % (T, d.inner.inst))
    lines.append("    type Inner = %s;" % d.inner.conc_ty)
    lines.append("    fn inner_of(t: TT) -> nvrt::Value { nvrt::Conv::to_value(&t.into_inner()) }")
    if vname:
        lines.append("    " + vname)
    lines.append("    " + _mk(d))
    for it in (extra_items or []):
        lines.append("    " + it.replace("\n", "\n    "))
    lines.append("    pub struct G(pub nvrt::Spec);")
    lines.append("    impl nvrt::Subject for G {")
    lines.append("        fn spec(&self) -> &nvrt::Spec { &self.0 }")
    for mm in methods:
        lines.append("        " + mm)
    lines.append("    }")
    lines.append("    pub fn subject() -> Box<dyn nvrt::Subject> { Box::new(G(%s)) }" % d.spec_expr())
    lines.append("}")
    return "\n".join(lines) + "\n"
