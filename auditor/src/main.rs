//! Expansion auditor: parses `-Zunpretty=expanded` output with syn and emits an event log (JSON) of every
//! `mod __nutype_<T>__`: struct/field visibility, impls, functions (receiver, unsafety, visibility),
//! direct-construction sites and call order. Rules are applied offline by the Python checker.
use quote::ToTokens;
use serde_json::{json, Value};
use syn::visit::Visit;

fn vis_str(v: &syn::Visibility) -> String {
    match v {
        syn::Visibility::Inherited => "".into(),
        other => other.to_token_stream().to_string().replace(' ', ""),
    }
}

struct BodyScan<'a> {
    type_name: &'a str,
    events: Vec<Value>, // ordered: {"call": name} | {"construct": how}
    unsafe_blocks: usize,
    transmute: bool,
}

impl<'a, 'ast> Visit<'ast> for BodyScan<'a> {
    fn visit_expr_call(&mut self, e: &'ast syn::ExprCall) {
        if let syn::Expr::Path(p) = &*e.func {
            let segs: Vec<String> = p.path.segments.iter().map(|s| s.ident.to_string()).collect();
            let last = segs.last().cloned().unwrap_or_default();
            if segs.len() == 1 && (last == "Self" || last == self.type_name) {
                self.events.push(json!({"construct": format!("{}(..)", last)}));
            } else {
                if last == "transmute" {
                    self.transmute = true;
                }
                self.events.push(json!({"call": segs.join("::")}));
            }
        }
        syn::visit::visit_expr_call(self, e);
    }
    fn visit_expr_method_call(&mut self, e: &'ast syn::ExprMethodCall) {
        // receiver first (evaluation order), then the call
        syn::visit::visit_expr_method_call(self, e);
        self.events.push(json!({"call": format!(".{}", e.method)}));
    }
    fn visit_expr_struct(&mut self, e: &'ast syn::ExprStruct) {
        let segs: Vec<String> = e.path.segments.iter().map(|s| s.ident.to_string()).collect();
        let last = segs.last().cloned().unwrap_or_default();
        if segs.len() == 1 && (last == "Self" || last == self.type_name) {
            self.events.push(json!({"construct": format!("{} {{..}}", last)}));
        }
        syn::visit::visit_expr_struct(self, e);
    }
    fn visit_expr_reference(&mut self, e: &'ast syn::ExprReference) {
        // `&mut <something>.0` — a mutable borrow of a tuple field
        if e.mutability.is_some() {
            if let syn::Expr::Field(f) = &*e.expr {
                if let syn::Member::Unnamed(ix) = &f.member {
                    if ix.index == 0 {
                        self.events.push(json!({"mut_borrow_of_field": f.base.to_token_stream().to_string()}));
                    }
                }
            }
        }
        syn::visit::visit_expr_reference(self, e);
    }
    fn visit_expr_assign(&mut self, e: &'ast syn::ExprAssign) {
        let mut l: &syn::Expr = &e.left;
        // peel derefs / indexes / method receivers down to a field access
        loop {
            match l {
                syn::Expr::Unary(u) => l = &u.expr,
                syn::Expr::Index(i) => l = &i.expr,
                syn::Expr::Paren(p) => l = &p.expr,
                _ => break,
            }
        }
        if let syn::Expr::Field(f) = l {
            if let syn::Member::Unnamed(ix) = &f.member {
                if ix.index == 0 {
                    self.events.push(json!({"assign_to_field": f.base.to_token_stream().to_string()}));
                }
            }
        }
        syn::visit::visit_expr_assign(self, e);
    }
    fn visit_expr_binary(&mut self, e: &'ast syn::ExprBinary) {
        use syn::BinOp::*;
        if matches!(e.op, AddAssign(_) | SubAssign(_) | MulAssign(_) | DivAssign(_) | RemAssign(_) | BitXorAssign(_) | BitAndAssign(_) | BitOrAssign(_) | ShlAssign(_) | ShrAssign(_)) {
            if let syn::Expr::Field(f) = &*e.left {
                if let syn::Member::Unnamed(ix) = &f.member {
                    if ix.index == 0 {
                        self.events.push(json!({"assign_to_field": f.base.to_token_stream().to_string()}));
                    }
                }
            }
        }
        syn::visit::visit_expr_binary(self, e);
    }
    fn visit_expr_unsafe(&mut self, e: &'ast syn::ExprUnsafe) {
        self.unsafe_blocks += 1;
        syn::visit::visit_expr_unsafe(self, e);
    }
    fn visit_item_fn(&mut self, _i: &'ast syn::ItemFn) {
        // nested helper fns are scanned too
        syn::visit::visit_item_fn(self, _i);
    }
    fn visit_macro(&mut self, m: &'ast syn::Macro) {
        // unexpanded macros should not remain, but record them
        self.events.push(json!({"macro": m.path.to_token_stream().to_string()}));
    }
}

fn receiver_of(sig: &syn::Signature) -> String {
    match sig.inputs.first() {
        Some(syn::FnArg::Receiver(r)) => {
            if r.reference.is_some() {
                if r.mutability.is_some() { "&mut self".into() } else { "&self".into() }
            } else if r.colon_token.is_some() {
                format!("self: {}", r.ty.to_token_stream())
            } else if r.mutability.is_some() {
                "mut self".into()
            } else {
                "self".into()
            }
        }
        _ => "none".into(),
    }
}

fn fn_event(type_name: &str, vis: &syn::Visibility, sig: &syn::Signature, block: &syn::Block) -> Value {
    let mut scan = BodyScan { type_name, events: vec![], unsafe_blocks: 0, transmute: false };
    scan.visit_block(block);
    let ret = match &sig.output {
        syn::ReturnType::Default => "()".to_string(),
        syn::ReturnType::Type(_, t) => t.to_token_stream().to_string(),
    };
    let mut_params: Vec<String> = sig
        .inputs
        .iter()
        .filter_map(|a| match a {
            syn::FnArg::Typed(t) => {
                let s = t.ty.to_token_stream().to_string();
                if s.contains("& mut") || s.contains("&mut") { Some(s) } else { None }
            }
            _ => None,
        })
        .collect();
    json!({
        "name": sig.ident.to_string(), "vis": vis_str(vis), "unsafe": sig.unsafety.is_some(), "const": sig.constness.is_some(),
        "receiver": receiver_of(sig), "ret": ret, "events": scan.events, "unsafe_blocks": scan.unsafe_blocks, "transmute": scan.transmute,
        "mut_ref_params": mut_params,
    })
}

fn audit_module(m: &syn::ItemMod, siblings: &[syn::Item]) -> Value {
    let name = m.ident.to_string();
    let type_name = name.trim_start_matches("__nutype_").trim_end_matches("__").to_string();
    let doc_hidden = m.attrs.iter().any(|a| a.to_token_stream().to_string().replace(' ', "").contains("doc(hidden)"));
    let mut structs = vec![];
    let mut enums = vec![];
    let mut impls = vec![];
    let mut other_items = vec![];
    let mut unparsed = vec![];
    if let Some((_, items)) = &m.content {
        for it in items {
            match it {
                syn::Item::Struct(s) => {
                    let fields: Vec<Value> = s.fields.iter().map(|f| json!({"vis": vis_str(&f.vis), "ty": f.ty.to_token_stream().to_string()})).collect();
                    structs.push(json!({"name": s.ident.to_string(), "vis": vis_str(&s.vis), "fields": fields,
                        "attrs": s.attrs.iter().map(|a| a.to_token_stream().to_string()).collect::<Vec<_>>() }));
                }
                syn::Item::Enum(e) => {
                    enums.push(json!({"name": e.ident.to_string(), "vis": vis_str(&e.vis), "variants": e.variants.iter().map(|v| v.ident.to_string()).collect::<Vec<_>>() }));
                }
                syn::Item::Impl(im) => {
                    let tr = im.trait_.as_ref().map(|(_, p, _)| p.to_token_stream().to_string().replace(' ', ""));
                    let self_ty = im.self_ty.to_token_stream().to_string();
                    let mut fns = vec![];
                    for ii in &im.items {
                        if let syn::ImplItem::Fn(f) = ii {
                            fns.push(fn_event(&type_name, &f.vis, &f.sig, &f.block));
                        }
                    }
                    impls.push(json!({"trait": tr, "self_ty": self_ty, "unsafe": im.unsafety.is_some(), "fns": fns}));
                }
                syn::Item::Fn(f) => {
                    other_items.push(json!({"kind": "fn", "detail": fn_event(&type_name, &f.vis, &f.sig, &f.block)}));
                }
                syn::Item::Use(u) => {
                    other_items.push(json!({"kind": "use", "vis": vis_str(&u.vis), "path": u.tree.to_token_stream().to_string()}));
                }
                syn::Item::Mod(mm) => {
                    other_items.push(json!({"kind": "mod", "name": mm.ident.to_string(), "vis": vis_str(&mm.vis)}));
                }
                syn::Item::Verbatim(t) => unparsed.push(t.to_string().chars().take(200).collect::<String>()),
                other => {
                    other_items.push(json!({"kind": "other", "text": other.to_token_stream().to_string().chars().take(160).collect::<String>()}));
                }
            }
        }
    }
    let mut reexports = vec![];
    for s in siblings {
        if let syn::Item::Use(u) = s {
            let p = u.tree.to_token_stream().to_string().replace(' ', "");
            if p.starts_with(&format!("{}::", name)) {
                reexports.push(json!({"vis": vis_str(&u.vis), "path": p}));
            }
        }
    }
    json!({"module": name, "type_name": type_name, "mod_vis": vis_str(&m.vis), "doc_hidden": doc_hidden, "structs": structs, "enums": enums,
           "impls": impls, "other_items": other_items, "reexports": reexports, "unparsed": unparsed})
}

fn walk(items: &[syn::Item], path: &str, out: &mut Vec<Value>) {
    for it in items {
        if let syn::Item::Mod(m) = it {
            let name = m.ident.to_string();
            if name.starts_with("__nutype_") {
                let mut v = audit_module(m, items);
                v["parent"] = json!(path);
                out.push(v);
            } else if let Some((_, inner)) = &m.content {
                walk(inner, &format!("{}::{}", path, name), out);
            }
        }
    }
}

fn main() {
    let args: Vec<String> = std::env::args().collect();
    let src = std::fs::read_to_string(&args[1]).expect("read expanded source");
    let out_path = &args[2];
    let file = match syn::parse_file(&src) {
        Ok(f) => f,
        Err(e) => {
            std::fs::write(out_path, serde_json::to_string(&json!({"parse_error": e.to_string()})).unwrap()).unwrap();
            std::process::exit(2);
        }
    };
    let mut out = vec![];
    walk(&file.items, "crate", &mut out);
    std::fs::write(out_path, serde_json::to_string(&json!({"modules": out})).unwrap()).unwrap();
}
