//! Serde side of the harness: generic (de)serialization of a newtype / its serde-derived reference /
//! its inner value in container positions, a recording Serializer and a probing Deserializer.
use crate::subject::{guarded, DeObs, Fmt, Pos, SerObs};
use crate::value::{Conv, Value};
use serde::de::DeserializeOwned;
use serde::{Deserialize, Serialize};
use std::collections::BTreeMap;

#[derive(Serialize, Deserialize, Debug)]
pub struct Wrap<X> {
    pub a: X,
    pub b: u8,
}

pub trait SerdeGlue {
    type T: Serialize + DeserializeOwned;
    type R: Serialize + DeserializeOwned;
    type I: Serialize + DeserializeOwned + Conv;
    fn t_inner(t: Self::T) -> Value;
    fn r_inner(r: Self::R) -> Value;
    fn t_make(raw: &Value) -> Option<Self::T>;
    fn r_make(i: Self::I) -> Self::R;
}

pub fn from_bytes<X: DeserializeOwned>(f: Fmt, bytes: &[u8]) -> Result<X, String> {
    match f {
        Fmt::Json => serde_json::from_slice::<X>(bytes).map_err(|e| e.to_string()),
        Fmt::Ron => ron::de::from_bytes::<X>(bytes).map_err(|e| e.to_string()),
        Fmt::MsgPack => rmp_serde::from_slice::<X>(bytes).map_err(|e| e.to_string()),
    }
}

pub fn to_bytes<X: Serialize + ?Sized>(f: Fmt, x: &X) -> Result<Vec<u8>, String> {
    match f {
        Fmt::Json => serde_json::to_vec(x).map_err(|e| e.to_string()),
        Fmt::Ron => ron::ser::to_string(x).map(|s| s.into_bytes()).map_err(|e| e.to_string()),
        Fmt::MsgPack => rmp_serde::to_vec(x).map_err(|e| e.to_string()),
    }
}

/// deserialize X in a container position and flatten to the list of X in document order
fn de_pos<X: DeserializeOwned>(f: Fmt, p: Pos, bytes: &[u8]) -> Result<Vec<X>, String> {
    Ok(match p {
        Pos::Bare => vec![from_bytes::<X>(f, bytes)?],
        Pos::VecElem => from_bytes::<Vec<X>>(f, bytes)?,
        Pos::OptionSome => from_bytes::<Option<X>>(f, bytes)?.into_iter().collect(),
        Pos::StructField => vec![from_bytes::<Wrap<X>>(f, bytes)?.a],
        Pos::MapValue => from_bytes::<BTreeMap<String, X>>(f, bytes)?.into_values().collect(),
        Pos::MapKey => unreachable!("MapKey needs Ord: use de_key"),
    })
}

pub fn de<G: SerdeGlue>(f: Fmt, p: Pos, bytes: &[u8]) -> DeObs {
    match guarded(|| de_pos::<G::T>(f, p, bytes)) {
        Err(pm) => DeObs::Panic(pm),
        Ok(Err(e)) => DeObs::Err(e),
        Ok(Ok(v)) => DeObs::Ok(v.into_iter().map(G::t_inner).collect()),
    }
}

/// `Deserialize::deserialize_in_place` (public, doc-hidden serde API that safe code - and serde's own `Vec<T>` impl - can call) into an existing
/// valid value built from `seed`. Returns (result of the call, what the place holds afterwards); for `vec` the place is a two-element Vec.
pub fn de_in_place<G: SerdeGlue>(f: Fmt, bytes: &[u8], seed: &Value, vec: bool) -> Option<(Result<(), String>, Vec<Value>)> {
    use serde::Deserialize;
    fn run<'a, X: Deserialize<'a>>(f: Fmt, bytes: &'a [u8], place: &mut X) -> Result<(), String> {
        match f {
            Fmt::Json => {
                let mut d = serde_json::Deserializer::from_slice(bytes);
                Deserialize::deserialize_in_place(&mut d, place).map_err(|e| e.to_string())
            }
            Fmt::Ron => {
                let mut d = ron::de::Deserializer::from_bytes(bytes).map_err(|e| e.to_string())?;
                Deserialize::deserialize_in_place(&mut d, place).map_err(|e| e.to_string())
            }
            Fmt::MsgPack => {
                let mut d = rmp_serde::Deserializer::new(bytes);
                Deserialize::deserialize_in_place(&mut d, place).map_err(|e| e.to_string())
            }
        }
    }
    if vec {
        let mut place: Vec<G::T> = vec![G::t_make(seed)?, G::t_make(seed)?];
        let r = match guarded(|| run(f, bytes, &mut place)) {
            Ok(r) => r,
            Err(p) => Err(format!("PANIC({p})")),
        };
        Some((r, place.into_iter().map(G::t_inner).collect()))
    } else {
        let mut place: G::T = G::t_make(seed)?;
        let r = match guarded(|| run(f, bytes, &mut place)) {
            Ok(r) => r,
            Err(p) => Err(format!("PANIC({p})")),
        };
        Some((r, vec![G::t_inner(place)]))
    }
}

pub fn de_ref<G: SerdeGlue>(f: Fmt, p: Pos, bytes: &[u8]) -> Result<Vec<Value>, String> {
    match guarded(|| de_pos::<G::R>(f, p, bytes)) {
        Err(pm) => Err(format!("reference panicked: {pm}")),
        Ok(Err(e)) => Err(e),
        Ok(Ok(v)) => Ok(v.into_iter().map(G::r_inner).collect()),
    }
}

pub fn de_key<G: SerdeGlue>(f: Fmt, bytes: &[u8]) -> DeObs
where
    G::T: Ord,
{
    match guarded(|| from_bytes::<BTreeMap<G::T, u8>>(f, bytes)) {
        Err(pm) => DeObs::Panic(pm),
        Ok(Err(e)) => DeObs::Err(e),
        Ok(Ok(m)) => DeObs::Ok(m.into_keys().map(G::t_inner).collect()),
    }
}

pub fn de_key_ref<G: SerdeGlue>(f: Fmt, bytes: &[u8]) -> Result<Vec<Value>, String>
where
    G::R: Ord,
{
    match guarded(|| from_bytes::<BTreeMap<G::R, u8>>(f, bytes)) {
        Err(pm) => Err(format!("reference panicked: {pm}")),
        Ok(Err(e)) => Err(e),
        Ok(Ok(m)) => Ok(m.into_keys().map(G::r_inner).collect()),
    }
}

/// document construction: the inner value and the serde-derived reference newtype, serialized in a
/// container position (JSON/MessagePack give the same bytes for both; RON gives `5` and `T(5)`)
pub fn docs_for<G: SerdeGlue>(f: Fmt, p: Pos, raw: &Value) -> Vec<Vec<u8>>
where
    G::I: Ord,
    G::R: Ord,
{
    let mut out = Vec::new();
    if p == Pos::MapKey {
        let mut m = BTreeMap::new();
        m.insert(<G::I as Conv>::from_value(raw), 1u8);
        out.extend(to_bytes(f, &m).ok());
        let mut m = BTreeMap::new();
        m.insert(G::r_make(Conv::from_value(raw)), 1u8);
        out.extend(to_bytes(f, &m).ok());
    } else {
        out = docs_for_noord::<G>(f, p, raw);
    }
    out
}

fn pos_docs<X: Serialize>(f: Fmt, p: Pos, mk: impl Fn() -> X, out: &mut Vec<Vec<u8>>) {
    let r = match p {
        Pos::Bare => to_bytes(f, &mk()),
        Pos::VecElem => to_bytes(f, &vec![mk(), mk()]),
        Pos::OptionSome => to_bytes(f, &Some(mk())),
        Pos::StructField => {
            if f == Fmt::MsgPack {
                // also the named (map) encoding of the struct
                out.extend(rmp_serde::to_vec_named(&Wrap { a: mk(), b: 7 }).ok());
            }
            to_bytes(f, &Wrap { a: mk(), b: 7 })
        }
        Pos::MapValue => {
            let mut m = BTreeMap::new();
            m.insert("k".to_string(), mk());
            to_bytes(f, &m)
        }
        Pos::MapKey => Err("map key needs Ord".into()),
    };
    out.extend(r.ok());
}

pub fn docs_for_noord<G: SerdeGlue>(f: Fmt, p: Pos, raw: &Value) -> Vec<Vec<u8>> {
    let mut out = Vec::new();
    pos_docs(f, p, || <G::I as Conv>::from_value(raw), &mut out);
    pos_docs(f, p, || G::r_make(Conv::from_value(raw)), &mut out);
    out
}

pub fn ser<G: SerdeGlue>(f: Fmt, raw: &Value) -> Option<SerObs> {
    let t = G::t_make(raw)?;
    // the stored inner value (sanitized) is what must be compared with
    let stored: Value = G::t_inner(G::t_make(raw)?);
    let inner: G::I = Conv::from_value(&stored);
    let mut o = SerObs::default();
    let bt = guarded(|| to_bytes(f, &t)).unwrap_or_else(|p| Err(format!("PANIC {p}")));
    let bi = to_bytes(f, &inner);
    let r = G::r_make(Conv::from_value(&stored));
    o.bytes_ref = Some(to_bytes(f, &r));
    if let Ok(b) = &bi {
        o.inner_roundtrip = Some(from_bytes::<G::I>(f, b).map(|x| x.to_value()));
    }
    if let Ok(b) = &bt {
        o.t_roundtrip = Some(match guarded(|| from_bytes::<G::T>(f, b)) {
            Ok(Ok(t2)) => Ok(G::t_inner(t2)),
            Ok(Err(e)) => Err(e),
            Err(p) => Err(format!("PANIC {p}")),
        });
    }
    o.bytes_t = Some(bt);
    o.bytes_inner = Some(bi);
    if f == Fmt::Ron {
        let cfg = || ron::ser::PrettyConfig::new().struct_names(true);
        let tt = G::t_make(raw)?;
        let a = guarded(|| ron::ser::to_string_pretty(&tt, cfg()).map_err(|e| e.to_string())).unwrap_or_else(|p| Err(format!("PANIC {p}")));
        let b = ron::ser::to_string_pretty(&G::r_make(Conv::from_value(&stored)), cfg()).map_err(|e| e.to_string());
        let back = a.as_ref().ok().map(|txt| match guarded(|| ron::de::from_str::<G::T>(txt)) {
            Ok(Ok(t2)) => Ok(G::t_inner(t2)),
            Ok(Err(e)) => Err(e.to_string()),
            Err(p) => Err(format!("PANIC {p}")),
        });
        o.ron_named = Some((a, b, back));
    }
    for p in [Pos::VecElem, Pos::OptionSome, Pos::StructField, Pos::MapValue] {
        let one = |out: &mut Vec<Vec<u8>>| -> Result<Vec<u8>, String> { out.pop().ok_or_else(|| "serialization failed".to_string()) };
        let mut a = Vec::new();
        let r = guarded(|| pos_docs(f, p, || G::t_make(raw).expect("constructible"), &mut a));
        let bt = if r.is_err() { Err("PANIC".to_string()) } else { one(&mut a) };
        let mut b = Vec::new();
        pos_docs(f, p, || <G::I as Conv>::from_value(&stored), &mut b);
        let bi = one(&mut b);
        let mut c = Vec::new();
        pos_docs(f, p, || G::r_make(Conv::from_value(&stored)), &mut c);
        let br = one(&mut c);
        let back = bt.as_ref().ok().map(|bytes| de::<G>(f, p, bytes));
        let inner_back = bi.as_ref().ok().map(|bytes| de_pos::<G::I>(f, p, bytes).map(|v| v.iter().map(|x| x.to_value()).collect::<Vec<Value>>()));
        o.nested.push((p, bt, bi, br, back, inner_back));
    }
    Some(o)
}

pub fn trace<G: SerdeGlue>(raw: &Value) -> Option<(Vec<String>, Vec<String>)> {
    let t = G::t_make(raw)?;
    let stored: Value = G::t_inner(G::t_make(raw)?);
    let inner: G::I = Conv::from_value(&stored);
    let mut a = Recorder::default();
    let _ = t.serialize(&mut a);
    let mut b = Recorder::default();
    let _ = inner.serialize(&mut b);
    Some((a.log, b.log))
}

// ------------------------------------------------------------------ recording serializer

#[derive(Default)]
pub struct Recorder {
    pub log: Vec<String>,
}

#[derive(Debug)]
pub struct RecErr(String);
impl std::fmt::Display for RecErr {
    fn fmt(&self, f: &mut std::fmt::Formatter<'_>) -> std::fmt::Result {
        write!(f, "{}", self.0)
    }
}
impl std::error::Error for RecErr {}
impl serde::ser::Error for RecErr {
    fn custom<T: std::fmt::Display>(msg: T) -> Self {
        RecErr(msg.to_string())
    }
}

macro_rules! rec_prim {
    ($name:ident, $t:ty, $fmt:expr) => {
        fn $name(self, v: $t) -> Result<(), RecErr> {
            self.log.push(format!($fmt, v));
            Ok(())
        }
    };
}

impl<'a> serde::Serializer for &'a mut Recorder {
    type Ok = ();
    type Error = RecErr;
    type SerializeSeq = Self;
    type SerializeTuple = Self;
    type SerializeTupleStruct = Self;
    type SerializeTupleVariant = Self;
    type SerializeMap = Self;
    type SerializeStruct = Self;
    type SerializeStructVariant = Self;
    rec_prim!(serialize_bool, bool, "bool({})");
    rec_prim!(serialize_i8, i8, "i8({})");
    rec_prim!(serialize_i16, i16, "i16({})");
    rec_prim!(serialize_i32, i32, "i32({})");
    rec_prim!(serialize_i64, i64, "i64({})");
    rec_prim!(serialize_i128, i128, "i128({})");
    rec_prim!(serialize_u8, u8, "u8({})");
    rec_prim!(serialize_u16, u16, "u16({})");
    rec_prim!(serialize_u32, u32, "u32({})");
    rec_prim!(serialize_u64, u64, "u64({})");
    rec_prim!(serialize_u128, u128, "u128({})");
    rec_prim!(serialize_char, char, "char({:?})");
    rec_prim!(serialize_str, &str, "str({:?})");
    fn serialize_f32(self, v: f32) -> Result<(), RecErr> {
        self.log.push(format!("f32({:#x})", v.to_bits()));
        Ok(())
    }
    fn serialize_f64(self, v: f64) -> Result<(), RecErr> {
        self.log.push(format!("f64({:#x})", v.to_bits()));
        Ok(())
    }
    fn serialize_bytes(self, v: &[u8]) -> Result<(), RecErr> {
        self.log.push(format!("bytes({:?})", v));
        Ok(())
    }
    fn serialize_none(self) -> Result<(), RecErr> {
        self.log.push("none".into());
        Ok(())
    }
    fn serialize_some<T: ?Sized + Serialize>(self, v: &T) -> Result<(), RecErr> {
        self.log.push("some".into());
        v.serialize(self)
    }
    fn serialize_unit(self) -> Result<(), RecErr> {
        self.log.push("unit".into());
        Ok(())
    }
    fn serialize_unit_struct(self, name: &'static str) -> Result<(), RecErr> {
        self.log.push(format!("unit_struct({name})"));
        Ok(())
    }
    fn serialize_unit_variant(self, name: &'static str, _i: u32, variant: &'static str) -> Result<(), RecErr> {
        self.log.push(format!("unit_variant({name}::{variant})"));
        Ok(())
    }
    fn serialize_newtype_struct<T: ?Sized + Serialize>(self, name: &'static str, v: &T) -> Result<(), RecErr> {
        self.log.push(format!("newtype_struct({name})"));
        v.serialize(self)
    }
    fn serialize_newtype_variant<T: ?Sized + Serialize>(self, name: &'static str, _i: u32, variant: &'static str, v: &T) -> Result<(), RecErr> {
        self.log.push(format!("newtype_variant({name}::{variant})"));
        v.serialize(self)
    }
    fn serialize_seq(self, len: Option<usize>) -> Result<Self, RecErr> {
        self.log.push(format!("seq({:?})", len));
        Ok(self)
    }
    fn serialize_tuple(self, len: usize) -> Result<Self, RecErr> {
        self.log.push(format!("tuple({len})"));
        Ok(self)
    }
    fn serialize_tuple_struct(self, name: &'static str, len: usize) -> Result<Self, RecErr> {
        self.log.push(format!("tuple_struct({name},{len})"));
        Ok(self)
    }
    fn serialize_tuple_variant(self, name: &'static str, _i: u32, variant: &'static str, len: usize) -> Result<Self, RecErr> {
        self.log.push(format!("tuple_variant({name}::{variant},{len})"));
        Ok(self)
    }
    fn serialize_map(self, len: Option<usize>) -> Result<Self, RecErr> {
        self.log.push(format!("map({:?})", len));
        Ok(self)
    }
    fn serialize_struct(self, name: &'static str, len: usize) -> Result<Self, RecErr> {
        self.log.push(format!("struct({name},{len})"));
        Ok(self)
    }
    fn serialize_struct_variant(self, name: &'static str, _i: u32, variant: &'static str, len: usize) -> Result<Self, RecErr> {
        self.log.push(format!("struct_variant({name}::{variant},{len})"));
        Ok(self)
    }
}

macro_rules! rec_compound {
    ($tr:ident, $m:ident) => {
        impl<'a> serde::ser::$tr for &'a mut Recorder {
            type Ok = ();
            type Error = RecErr;
            fn $m<T: ?Sized + Serialize>(&mut self, v: &T) -> Result<(), RecErr> {
                v.serialize(&mut **self)
            }
            fn end(self) -> Result<(), RecErr> {
                self.log.push("end".into());
                Ok(())
            }
        }
    };
}
rec_compound!(SerializeSeq, serialize_element);
rec_compound!(SerializeTuple, serialize_element);
rec_compound!(SerializeTupleStruct, serialize_field);
rec_compound!(SerializeTupleVariant, serialize_field);

impl<'a> serde::ser::SerializeMap for &'a mut Recorder {
    type Ok = ();
    type Error = RecErr;
    fn serialize_key<T: ?Sized + Serialize>(&mut self, k: &T) -> Result<(), RecErr> {
        self.log.push("key".into());
        k.serialize(&mut **self)
    }
    fn serialize_value<T: ?Sized + Serialize>(&mut self, v: &T) -> Result<(), RecErr> {
        v.serialize(&mut **self)
    }
    fn end(self) -> Result<(), RecErr> {
        self.log.push("end".into());
        Ok(())
    }
}
impl<'a> serde::ser::SerializeStruct for &'a mut Recorder {
    type Ok = ();
    type Error = RecErr;
    fn serialize_field<T: ?Sized + Serialize>(&mut self, key: &'static str, v: &T) -> Result<(), RecErr> {
        self.log.push(format!("field({key})"));
        v.serialize(&mut **self)
    }
    fn end(self) -> Result<(), RecErr> {
        self.log.push("end".into());
        Ok(())
    }
}
impl<'a> serde::ser::SerializeStructVariant for &'a mut Recorder {
    type Ok = ();
    type Error = RecErr;
    fn serialize_field<T: ?Sized + Serialize>(&mut self, key: &'static str, v: &T) -> Result<(), RecErr> {
        self.log.push(format!("field({key})"));
        v.serialize(&mut **self)
    }
    fn end(self) -> Result<(), RecErr> {
        self.log.push("end".into());
        Ok(())
    }
}

// ------------------------------------------------------------------ probing deserializer

/// Records which `deserialize_*` entry point a Deserialize impl calls first, then fails.
pub struct Probe<'l> {
    pub log: &'l std::cell::RefCell<Vec<String>>,
    /// which non-newtype `visit_*` to offer to the visitor (a hand-written Deserializer is safe client code)
    pub mode: usize,
}

pub const PROBE_MODES: usize = 14;

#[derive(Debug)]
pub struct ProbeErr(pub String);
impl std::fmt::Display for ProbeErr {
    fn fmt(&self, f: &mut std::fmt::Formatter<'_>) -> std::fmt::Result {
        write!(f, "{}", self.0)
    }
}
impl std::error::Error for ProbeErr {}
impl serde::de::Error for ProbeErr {
    fn custom<T: std::fmt::Display>(msg: T) -> Self {
        ProbeErr(msg.to_string())
    }
}

macro_rules! probe_m {
    ($($name:ident),*) => {$(
        fn $name<V: serde::de::Visitor<'de>>(self, _v: V) -> Result<V::Value, ProbeErr> {
            self.log.borrow_mut().push(stringify!($name).to_string());
            Err(ProbeErr("probe".into()))
        }
    )*};
}

impl<'de, 'l> serde::Deserializer<'de> for Probe<'l> {
    type Error = ProbeErr;
    probe_m!(deserialize_any, deserialize_bool, deserialize_i8, deserialize_i16, deserialize_i32, deserialize_i64, deserialize_i128,
        deserialize_u8, deserialize_u16, deserialize_u32, deserialize_u64, deserialize_u128, deserialize_f32, deserialize_f64,
        deserialize_char, deserialize_str, deserialize_string, deserialize_bytes, deserialize_byte_buf, deserialize_option,
        deserialize_unit, deserialize_seq, deserialize_map, deserialize_identifier, deserialize_ignored_any);
    fn deserialize_unit_struct<V: serde::de::Visitor<'de>>(self, name: &'static str, _v: V) -> Result<V::Value, ProbeErr> {
        self.log.borrow_mut().push(format!("deserialize_unit_struct({name})"));
        Err(ProbeErr("probe".into()))
    }
    fn deserialize_newtype_struct<V: serde::de::Visitor<'de>>(self, name: &'static str, v: V) -> Result<V::Value, ProbeErr> {
        self.log.borrow_mut().push(format!("deserialize_newtype_struct({name})"));
        // offer every non-newtype visit: none of them may produce a value
        let mut exp = String::new();
        struct E<'a, V>(&'a V);
        impl<'a, 'de, V: serde::de::Visitor<'de>> std::fmt::Display for E<'a, V> {
            fn fmt(&self, f: &mut std::fmt::Formatter<'_>) -> std::fmt::Result {
                self.0.expecting(f)
            }
        }
        use std::fmt::Write;
        let _ = write!(exp, "{}", E(&v));
        self.log.borrow_mut().push(format!("expecting({exp})"));
        struct OneSeq(bool);
        impl<'de> serde::de::SeqAccess<'de> for OneSeq {
            type Error = ProbeErr;
            fn next_element_seed<T: serde::de::DeserializeSeed<'de>>(&mut self, seed: T) -> Result<Option<T::Value>, ProbeErr> {
                if self.0 {
                    return Ok(None);
                }
                self.0 = true;
                seed.deserialize(serde::de::value::U8Deserializer::<ProbeErr>::new(7)).map(Some)
            }
        }
        struct NoMap;
        impl<'de> serde::de::MapAccess<'de> for NoMap {
            type Error = ProbeErr;
            fn next_key_seed<K: serde::de::DeserializeSeed<'de>>(&mut self, _s: K) -> Result<Option<K::Value>, ProbeErr> {
                Ok(None)
            }
            fn next_value_seed<V2: serde::de::DeserializeSeed<'de>>(&mut self, _s: V2) -> Result<V2::Value, ProbeErr> {
                Err(ProbeErr("no value".into()))
            }
        }
        let (name2, r): (&str, Result<V::Value, ProbeErr>) = match self.mode {
            0 => ("visit_u64", v.visit_u64::<ProbeErr>(7)),
            1 => ("visit_i64", v.visit_i64::<ProbeErr>(-7)),
            2 => ("visit_f64", v.visit_f64::<ProbeErr>(f64::NAN)),
            3 => ("visit_bool", v.visit_bool::<ProbeErr>(true)),
            4 => ("visit_str", v.visit_str::<ProbeErr>("")),
            5 => ("visit_string", v.visit_string::<ProbeErr>(String::new())),
            6 => ("visit_bytes", v.visit_bytes::<ProbeErr>(&[])),
            7 => ("visit_none", v.visit_none::<ProbeErr>()),
            8 => ("visit_unit", v.visit_unit::<ProbeErr>()),
            9 => ("visit_seq", v.visit_seq(OneSeq(false))),
            10 => ("visit_map", v.visit_map(NoMap)),
            11 => ("visit_char", v.visit_char::<ProbeErr>(' ')),
            12 => ("visit_u128", v.visit_u128::<ProbeErr>(u128::MAX)),
            _ => ("visit_some", v.visit_some(serde::de::value::F64Deserializer::<ProbeErr>::new(f64::INFINITY))),
        };
        // a value produced by a non-newtype visit is handed back to the caller, who checks it against the reference model
        match r {
            Ok(x) => {
                self.log.borrow_mut().push(format!("{name2} produced a value"));
                return Ok(x);
            }
            Err(_) => self.log.borrow_mut().push(format!("{name2} rejected")),
        }
        Err(ProbeErr("probe".into()))
    }
    fn deserialize_tuple<V: serde::de::Visitor<'de>>(self, len: usize, _v: V) -> Result<V::Value, ProbeErr> {
        self.log.borrow_mut().push(format!("deserialize_tuple({len})"));
        Err(ProbeErr("probe".into()))
    }
    fn deserialize_tuple_struct<V: serde::de::Visitor<'de>>(self, name: &'static str, len: usize, _v: V) -> Result<V::Value, ProbeErr> {
        self.log.borrow_mut().push(format!("deserialize_tuple_struct({name},{len})"));
        Err(ProbeErr("probe".into()))
    }
    fn deserialize_struct<V: serde::de::Visitor<'de>>(self, name: &'static str, _f: &'static [&'static str], _v: V) -> Result<V::Value, ProbeErr> {
        self.log.borrow_mut().push(format!("deserialize_struct({name})"));
        Err(ProbeErr("probe".into()))
    }
    fn deserialize_enum<V: serde::de::Visitor<'de>>(self, name: &'static str, _f: &'static [&'static str], _v: V) -> Result<V::Value, ProbeErr> {
        self.log.borrow_mut().push(format!("deserialize_enum({name})"));
        Err(ProbeErr("probe".into()))
    }
}

/// (log of entry points / visits, values that non-newtype visits produced)
pub fn probe<G: SerdeGlue>() -> (Vec<String>, Vec<(String, Value)>) {
    let log = std::cell::RefCell::new(Vec::new());
    let mut produced = Vec::new();
    for mode in 0..PROBE_MODES {
        if let Ok(Ok(t)) = guarded(|| <G::T as Deserialize>::deserialize(Probe { log: &log, mode })) {
            let how = log.borrow().last().cloned().unwrap_or_default();
            produced.push((how, G::t_inner(t)));
        }
    }
    (log.into_inner(), produced)
}

/// the sequence form `[inner]` offered through serde's own SeqDeserializer (formats that hand newtypes over as sequences)
pub fn seq_form<'de, G: SerdeGlue>(raw: &Value) -> DeObs
where
    G::I: serde::de::IntoDeserializer<'de, serde::de::value::Error>,
    G::T: Deserialize<'de>,
{
    let x: G::I = Conv::from_value(raw);
    let d = serde::de::value::SeqDeserializer::<_, serde::de::value::Error>::new(vec![x].into_iter());
    match guarded(|| <G::T as Deserialize<'de>>::deserialize(d)) {
        Ok(Ok(t)) => DeObs::Ok(vec![G::t_inner(t)]),
        Ok(Err(e)) => DeObs::Err(e.to_string()),
        Err(p) => DeObs::Panic(p),
    }
}
