//! Declarative description of a declaration: what the README says it means.
//! Emitted by the Python generator (bounds are the *denoted* values computed in
//! Python, never the macro's parse).
use crate::value::Value;

#[derive(Clone, Copy, Debug, PartialEq, Eq)]
pub enum Fam {
    Int { signed: bool, bits: u8 }, // bits=0 => pointer sized (64 here)
    F32,
    F64,
    Str,
    Other,
}

impl Fam {
    pub fn int_bits(&self) -> u8 {
        match self {
            Fam::Int { bits: 0, .. } => 64,
            Fam::Int { bits, .. } => *bits,
            _ => 0,
        }
    }
    pub fn int_min(&self) -> Value {
        match self {
            Fam::Int { signed: true, .. } => {
                let b = self.int_bits() as u32;
                if b == 128 { Value::I(i128::MIN) } else { Value::I(-(1i128 << (b - 1))) }
            }
            Fam::Int { signed: false, bits: 128 } => Value::U(0),
            Fam::Int { signed: false, .. } => Value::I(0),
            _ => panic!("int_min on non-int"),
        }
    }
    pub fn int_max(&self) -> Value {
        match self {
            Fam::Int { signed: true, .. } => {
                let b = self.int_bits() as u32;
                if b == 128 { Value::I(i128::MAX) } else { Value::I((1i128 << (b - 1)) - 1) }
            }
            Fam::Int { signed: false, bits: 128 } => Value::U(u128::MAX),
            Fam::Int { signed: false, .. } => {
                let b = self.int_bits() as u32;
                Value::I((1i128 << b) - 1)
            }
            _ => panic!("int_max on non-int"),
        }
    }
    pub fn is_u128(&self) -> bool {
        matches!(self, Fam::Int { signed: false, bits: 128 })
    }
}

pub type SanFn = fn(&Value) -> Value;
pub type PredFn = fn(&Value) -> bool;
/// custom `with = f, error = E` validator: Err carries the Debug rendering of the user's error value
pub type CustomFn = fn(&Value) -> Result<(), String>;

#[derive(Clone)]
pub enum San {
    Trim,
    Lower,
    Upper,
    With(SanFn),
}

#[derive(Clone)]
pub enum Val {
    LenMin(u128),
    LenMax(u128),
    NotEmpty,
    Regex(String),
    Pred(PredFn),
    Less(Value),
    LessEq(Value),
    Greater(Value),
    GreaterEq(Value),
    Finite,
}

impl Val {
    pub fn variant(&self) -> &'static str {
        match self {
            Val::LenMin(_) => "LenCharMinViolated",
            Val::LenMax(_) => "LenCharMaxViolated",
            Val::NotEmpty => "NotEmptyViolated",
            Val::Regex(_) => "RegexViolated",
            Val::Pred(_) => "PredicateViolated",
            Val::Less(_) => "LessViolated",
            Val::LessEq(_) => "LessOrEqualViolated",
            Val::Greater(_) => "GreaterViolated",
            Val::GreaterEq(_) => "GreaterOrEqualViolated",
            Val::Finite => "FiniteViolated",
        }
    }
    pub fn is_bound(&self) -> bool {
        matches!(self, Val::Less(_) | Val::LessEq(_) | Val::Greater(_) | Val::GreaterEq(_))
    }
    pub fn bound(&self) -> Option<&Value> {
        match self {
            Val::Less(b) | Val::LessEq(b) | Val::Greater(b) | Val::GreaterEq(b) => Some(b),
            _ => None,
        }
    }
}

#[derive(Clone)]
pub struct Spec {
    pub id: String,
    pub type_name: String,
    pub fam: Fam,
    pub sans: Vec<San>,
    /// built-in validators in declared order; empty + custom==None => no validation (`new`)
    pub vals: Vec<Val>,
    pub custom: Option<CustomFn>,
    /// raw value of the `default = ` expression (before sanitising)
    pub default: Option<Value>,
    /// free-form tags (property selectors, twin group, flags)
    pub tags: Vec<String>,
    /// declaration source text (for witnesses)
    pub src: String,
}

impl Spec {
    pub fn has_validation(&self) -> bool {
        !self.vals.is_empty() || self.custom.is_some()
    }
    pub fn has_tag(&self, t: &str) -> bool {
        self.tags.iter().any(|x| x == t)
    }
    pub fn tag_value(&self, key: &str) -> Option<&str> {
        let p = format!("{key}=");
        self.tags.iter().find_map(|t| t.strip_prefix(p.as_str()))
    }
}
