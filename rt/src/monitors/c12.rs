//! C12 — `finite` floats: no NaN/inf obtainable, lawful Eq, total panic-free Ord.
use super::Ctx;
use crate::domain::{domain, parse_strings, Tier};
use crate::report::DeclReport;
use crate::subject::{Obs, ParseObs, Subject};
use crate::value::Value;
use std::cmp::Ordering;

pub fn assert_finite(rep: &mut DeclReport, via: &str, input: String, v: &Value) {
    rep.executions += 1;
    rep.bump(via);
    if !v.is_finite_float() {
        rep.violate(&format!("non-finite-obtained:{via}"), input, v.show(), "a finite value or an error".into(), String::new());
    }
}

pub fn run(s: &dyn Subject, ctx: &Ctx) -> Option<DeclReport> {
    let spec = s.spec();
    if !spec.has_tag("C12") {
        return None;
    }
    let mut rep = DeclReport::new("C12", spec);
    let slice_only = ctx.sweep_slice_only.get();
    let dom = if slice_only { vec![] } else { domain(spec, ctx.tier, ctx.seed) };
    let mut obtain: Vec<Value> = Vec::new(); // raws that yield values
    for raw in &dom {
        if !raw.is_finite_float() {
            rep.guard("nonfinite_offered:ctor");
        }
        if let Obs::Ok(v) = s.ctor(raw) {
            assert_finite(&mut rep, "try_new", raw.show(), &v);
            obtain.push(raw.clone());
        }
        if let Some(Obs::Ok(v)) = s.try_from_inner(raw) {
            if !raw.is_finite_float() {
                rep.guard("nonfinite_offered:TryFrom");
            }
            assert_finite(&mut rep, "TryFrom", raw.show(), &v);
        }
    }
    if !slice_only && s.parse("0").is_some() {
        for st in parse_strings(spec, ctx.tier, ctx.seed) {
            let l = st.to_ascii_lowercase();
            if l.contains("nan") || l.contains("inf") || l.contains("e4") {
                rep.guard("nonfinite_offered:FromStr");
            }
            if let Some(ParseObs::Ok(v)) = s.parse(&st) {
                assert_finite(&mut rep, "FromStr", format!("{:?}", st), &v);
            }
        }
    }
    if slice_only {
    } else if let Some(Obs::Ok(v)) = s.default() {
        assert_finite(&mut rep, "Default", "<default>".into(), &v);
    }
    // Deserialize entry point (serde corpus declarations)
    if !slice_only && s.de(crate::subject::Fmt::Json, crate::subject::Pos::Bare, b"0").is_some() {
        let mut work: Vec<(crate::subject::Fmt, crate::subject::Pos, Vec<u8>)> = Vec::new();
        super::c04::for_each_doc(s, ctx, |f, p, d| work.push((f, p, d.to_vec())));
        for (f, p, d) in &work {
            if let Some(Ok(list)) = s.de_ref(*f, *p, d) {
                if list.iter().any(|v| !v.is_finite_float()) {
                    rep.guard("nonfinite_offered:Deserialize");
                }
            }
            if let Some(crate::subject::DeObs::Ok(vals)) = s.de(*f, *p, d) {
                for v in &vals {
                    assert_finite(&mut rep, "Deserialize", format!("{:?}@{:?}:{}", p, f, String::from_utf8_lossy(d)), v);
                }
            }
        }
        // ... and `deserialize_in_place` into an existing finite value: whatever the call returns, the place must hold a finite value afterwards
        let seed = Value::f64_or_f32(spec, 0.5);
        if let Obs::Ok(_) = s.ctor(&seed) {
            for (f, p, d) in work.iter().filter(|w| w.1 == crate::subject::Pos::Bare) {
                if let Some((_r, place)) = s.de_in_place(*f, d, &seed, false) {
                    for v in &place {
                        assert_finite(&mut rep, "Deserialize(in place)", format!("{:?}@{:?}:{}", p, f, String::from_utf8_lossy(d)), v);
                    }
                    rep.guard("in_place_checked");
                }
            }
        }
    }
    // Arbitrary entry point (arbitrary corpus declarations)
    if !slice_only && s.arb(&[]).is_some() {
        let mut offer = |bytes: &[u8], rep: &mut DeclReport| {
            if let Some(crate::subject::ArbObs::Ok(v)) = s.arb(bytes) {
                assert_finite(rep, "Arbitrary", super::c09::hex(bytes), &v);
            }
        };
        offer(&[], &mut rep);
        for a in 0..=255u8 {
            offer(&[a], &mut rep);
            for b in (0..=255u8).step_by(5) {
                offer(&[a, b], &mut rep);
            }
        }
        for p in super::c09::pattern_inputs(spec) {
            offer(&p, &mut rep);
        }
        rep.guard("nonfinite_offered:Arbitrary");
    }
    if ctx.tier == Tier::Thorough && spec.has_tag("sweep32") {
        let (a, b) = ctx.sweep_range();
        for bits in a..b {
            let raw = Value::F32(bits as u32);
            if let Obs::Ok(v) = s.ctor(&raw) {
                assert_finite(&mut rep, "try_new", raw.show(), &v);
            } else {
                rep.executions += 1;
            }
        }
        rep.exhaustive.push((format!("f32 bit patterns {a:#x}..{b:#x} through try_new (slice {}/{} of all 2^32)", ctx.part, ctx.parts), b - a));
        if slice_only {
            return Some(rep);
        }
    }
    // ---- order axioms on the special set (+ a random sample)
    let mut specials: Vec<Value> = Vec::new();
    for raw in &obtain {
        let x = raw.as_f64().unwrap();
        let keep = x == 0.0 || x.abs() <= 1e-300 || x.abs() >= 1e30 || x.fract() == 0.0 && x.abs() <= 2.0 || specials.len() < 24;
        if keep && specials.len() < 48 {
            specials.push(raw.clone());
        }
    }
    for val in &spec.vals {
        if let Some(b) = val.bound() {
            if obtain.binary_search(b).is_ok() && !specials.contains(b) {
                specials.push(b.clone());
            }
        }
    }
    let step = (obtain.len() / 40).max(1);
    for (i, r) in obtain.iter().enumerate() {
        if i % step == 0 && !specials.contains(r) && specials.len() < 96 {
            specials.push(r.clone());
        }
    }
    let n = specials.len();
    let mut m: Vec<Vec<Option<Ordering>>> = vec![vec![None; n]; n];
    let mut eqm: Vec<Vec<bool>> = vec![vec![false; n]; n];
    let mut have_ord = false;
    for i in 0..n {
        for j in 0..n {
            let Some(o) = s.cmp2(&specials[i], &specials[j]) else { continue };
            let input = format!("({}, {})", specials[i].show(), specials[j].show());
            rep.executions += 1;
            if let Some((e, ne)) = o.outer.eq {
                eqm[i][j] = e;
                if i == j && (!e || ne) {
                    rep.violate("eq-not-reflexive", input.clone(), format!("a==a is {e}"), "true".into(), String::new());
                }
                if e == ne {
                    rep.violate("eq-ne-inconsistent", input.clone(), format!("== {e}, != {ne}"), "opposite".into(), String::new());
                }
            }
            match &o.outer.ord {
                Some(Ok(c)) => {
                    have_ord = true;
                    m[i][j] = Some(*c);
                    let p = o.outer.pord.as_ref().and_then(|p| p.0);
                    let ip = o.inner.pord.as_ref().and_then(|p| p.0);
                    if Some(*c) != p || Some(*c) != ip {
                        rep.violate("cmp-disagrees-with-partial_cmp", input.clone(), format!("cmp {:?}, partial_cmp {:?}", c, p), format!("inner partial_cmp {:?}", ip), String::new());
                    }
                    if (*c == Ordering::Equal) != eqm[i][j] {
                        rep.violate("cmp-equal-iff-eq-broken", input.clone(), format!("cmp {:?}, == {}", c, eqm[i][j]), "consistent".into(), String::new());
                    }
                    // the comparison operators are what sorting, `max`, `clamp` and users call: each must say what `cmp` says
                    if let Some((_, lt, le, gt, ge)) = o.outer.pord {
                        let want = (*c == Ordering::Less, *c != Ordering::Greater, *c == Ordering::Greater, *c != Ordering::Less);
                        if (lt, le, gt, ge) != want {
                            rep.violate("operators-disagree-with-cmp", input.clone(), format!("< {lt}, <= {le}, > {gt}, >= {ge}"), format!("cmp {:?}", c), String::new());
                        }
                    }
                }
                Some(Err(p)) => rep.violate("cmp-panics", input.clone(), format!("PANIC({p})"), "an Ordering".into(), String::new()),
                None => {}
            }
        }
    }
    if have_ord {
        let mut triples = 0u64;
        for i in 0..n {
            for j in 0..n {
                if let (Some(a), Some(b)) = (m[i][j], m[j][i]) {
                    if a != b.reverse() {
                        rep.violate("cmp-not-antisymmetric", format!("({}, {})", specials[i].show(), specials[j].show()), format!("{:?} / {:?}", a, b), "mirror images".into(), String::new());
                    }
                }
                for k in 0..n {
                    triples += 1;
                    if let (Some(ab), Some(bc), Some(ac)) = (m[i][j], m[j][k], m[i][k]) {
                        if ab != Ordering::Greater && bc != Ordering::Greater && ac == Ordering::Greater {
                            rep.violate("cmp-not-transitive", format!("({}, {}, {})", specials[i].show(), specials[j].show(), specials[k].show()), format!("{:?} {:?} {:?}", ab, bc, ac), "transitive".into(), String::new());
                        }
                    }
                }
            }
        }
        rep.guard_add("triples", triples);
        rep.executions += triples;
        rep.class("order-axioms-on-special-set");
        // sort + BTreeSet
        let mut pool = specials.clone();
        pool.extend(obtain.iter().rev().step_by(step.max(1)).take(200).cloned());
        match s.sort(&pool) {
            Some(Ok(sorted)) => {
                rep.executions += 1;
                let mut a: Vec<Value> = sorted.clone();
                let mut b: Vec<Value> = pool.iter().filter_map(|r| if let Obs::Ok(v) = s.ctor(r) { Some(v) } else { None }).collect();
                let nondecr = a.windows(2).all(|w| w[0].as_f64().unwrap() <= w[1].as_f64().unwrap());
                a.sort();
                b.sort();
                if a != b {
                    rep.violate("sort-not-a-permutation", format!("{} values", pool.len()), "different multiset".into(), "permutation".into(), String::new());
                }
                if !nondecr {
                    rep.violate("sort-not-nondecreasing", format!("{} values", pool.len()), "out of order".into(), "non-decreasing".into(), String::new());
                }
                rep.class("sort");
            }
            Some(Err(p)) => rep.violate("sort-panics", format!("{} values", pool.len()), format!("PANIC({p})"), "sorted".into(), String::new()),
            None => {}
        }
        match s.btree(&pool) {
            Some(Ok((found, total))) => {
                rep.executions += 1;
                if found != total {
                    rep.violate("btreeset-loses-values", format!("{} values", total), format!("found {found}"), format!("{total}"), String::new());
                }
                rep.class("btreeset");
            }
            Some(Err(p)) => rep.violate("btreeset-panics", format!("{} values", pool.len()), format!("PANIC({p})"), "ok".into(), String::new()),
            None => {}
        }
    }
    rep.guard_add("specials", n as u64);
    rep.class("obtainability");
    rep.sample(format!("{} :: {} obtainable raws all finite; order axioms on {} special values", spec.src.replace('\n', " "), obtain.len(), n));
    Some(rep)
}
