//! C06 — non-string FromStr = inner parse, then the constructor.
use super::Ctx;
use crate::domain::parse_strings;
use crate::report::DeclReport;
use crate::subject::{Obs, ParseObs, Subject};

pub fn run(s: &dyn Subject, ctx: &Ctx) -> Option<DeclReport> {
    let spec = s.spec();
    if !spec.has_tag("C06") {
        return None;
    }
    s.parse("0")?;
    let mut rep = DeclReport::new("C06", spec);
    for st in parse_strings(spec, ctx.tier, ctx.seed) {
        if let Some(only) = &ctx.only_input {
            if format!("{:?}", st) != *only {
                continue;
            }
        }
        let obs = s.parse(&st).unwrap();
        let inner = s.inner_parse(&st).unwrap();
        rep.executions += 1;
        let input = format!("{:?}", st);
        match inner {
            Err(e) => {
                match &obs {
                    ParseObs::Parse { inner_dbg, .. } if *inner_dbg == e => {}
                    _ => rep.violate("parse-verdict-differs-from-inner-type", input.clone(), obs.show(), format!("Err(Parse({e}))"), String::new()),
                }
                rep.class("parse-error");
                rep.bump("parse-error");
            }
            Ok(v) => {
                let c = s.ctor(&v);
                match (&c, &obs) {
                    (Obs::Ok(w), ParseObs::Ok(x)) if w == x => {
                        if *w != v {
                            rep.class("ok-sanitized");
                            rep.guard("sanitizer_changed_parsed_value");
                        } else {
                            rep.class("ok");
                        }
                        rep.bump("ok");
                    }
                    (Obs::Err { variant, display }, ParseObs::Validate { variant: v2, display_inner, .. }) if variant == v2 && display == display_inner => {
                        let vclass = if spec.custom.is_some() { "custom-error" } else { variant.as_str() };
                        rep.class(&format!("validate:{vclass}"));
                        rep.bump("validate-error");
                    }
                    (Obs::Ok(_), ParseObs::Ok(_)) => rep.violate("ok-but-different-value", input.clone(), obs.show(), c.show(), format!("parsed inner {}", v.show())),
                    (Obs::Err { .. }, ParseObs::Ok(_)) => rep.violate("yields-value-ctor-rejects", input.clone(), obs.show(), c.show(), format!("parsed inner {}", v.show())),
                    (Obs::Ok(_), ParseObs::Validate { .. }) | (Obs::Ok(_), ParseObs::Parse { .. }) => {
                        rep.violate("rejects-what-inner-parse-and-ctor-accept", input.clone(), obs.show(), c.show(), format!("parsed inner {}", v.show()))
                    }
                    (Obs::Err { .. }, ParseObs::Parse { .. }) => rep.violate("validate-error-reported-as-parse", input.clone(), obs.show(), c.show(), String::new()),
                    (Obs::Err { .. }, ParseObs::Validate { .. }) => rep.violate("validate-error-differs-from-ctor-error", input.clone(), obs.show(), c.show(), String::new()),
                    (_, ParseObs::Panic(m)) => rep.violate("panic", input.clone(), obs.show(), c.show(), m.clone()),
                    (Obs::Panic(_), _) => {}
                }
            }
        }
        if rep.samples.len() < 2 && rep.executions % 211 == 1 {
            rep.sample(format!("{} :: {:?}.parse() -> {}", spec.src.replace('\n', " "), st, obs.show()));
        }
    }
    Some(rep)
}
