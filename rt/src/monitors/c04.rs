//! C04 — deserialization can never produce a value the constructor rejects (differential vs a
//! serde-derived reference newtype parsed from the same bytes, then the constructor).
use super::Ctx;
use crate::domain::{domain, Tier};
use crate::report::DeclReport;
use crate::spec::*;
use crate::subject::{DeObs, Fmt, Obs, Pos, Subject, FMTS};
use crate::value::Value;

pub const POSITIONS: [Pos; 6] = [Pos::Bare, Pos::VecElem, Pos::OptionSome, Pos::StructField, Pos::MapValue, Pos::MapKey];

pub fn doc_raws(spec: &Spec, ctx: &Ctx) -> Vec<Value> {
    let dom = domain(spec, Tier::Quick, ctx.seed);
    let cap = if ctx.tier == Tier::Quick { 120 } else { 600 };
    let mut out: Vec<Value> = Vec::new();
    // always the bound neighbourhoods and the default
    for val in &spec.vals {
        if let Some(b) = val.bound() {
            out.push(b.clone());
        }
    }
    if dom.len() <= cap {
        out.extend(dom.iter().cloned());
    } else {
        let step = dom.len() / cap + 1;
        for (i, v) in dom.iter().enumerate() {
            if i % step == 0 || i < 12 || i + 12 > dom.len() {
                out.push(v.clone());
            }
        }
        // neighbours of bounds inside the domain
        for val in &spec.vals {
            if let Some(b) = val.bound() {
                {
                    let (Ok(i) | Err(i)) = dom.binary_search(b);
                    for j in i.saturating_sub(3)..(i + 4).min(dom.len()) {
                        out.push(dom[j].clone());
                    }
                }
            }
        }
    }
    // the special floats are always offered (guards must not depend on the seeded tail)
    match spec.fam {
        Fam::F32 => out.extend(crate::domain::f32_specials().into_iter().map(Value::F32)),
        Fam::F64 => out.extend(crate::domain::f64_specials().into_iter().map(Value::F64)),
        _ => {}
    }
    if let Fam::Str = spec.fam {
        out.retain(|v| v.as_str().map(|s| s.len() <= 64).unwrap_or(true));
        for s in ["ß", "𝒳", "\t a ", " x ", "", "\"quoted\"", "back\\slash", "line\nbreak", "\u{0}", "İ", "ab", "abc", "abcd", "a@b", "AB C"] {
            out.push(Value::Str(s.to_string()));
        }
    }
    out.sort();
    out.dedup();
    out
}

fn wrap_text(f: Fmt, p: Pos, doc: &str) -> Option<String> {
    Some(match (f, p) {
        (_, Pos::Bare) => doc.to_string(),
        (_, Pos::VecElem) => format!("[{doc},{doc}]"),
        (Fmt::Json, Pos::OptionSome) => doc.to_string(),
        (Fmt::Ron, Pos::OptionSome) => format!("Some({doc})"),
        (Fmt::Json, Pos::StructField) => format!("{{\"a\":{doc},\"b\":7}}"),
        (Fmt::Ron, Pos::StructField) => format!("(a:{doc},b:7)"),
        (_, Pos::MapValue) => format!("{{\"k\":{doc}}}"),
        (_, Pos::MapKey) => format!("{{{doc}:1}}"),
        _ => return None,
    })
}

fn wrap_mp(p: Pos, doc: &[u8]) -> Vec<u8> {
    let mut v = Vec::new();
    match p {
        Pos::Bare | Pos::OptionSome => v.extend_from_slice(doc),
        Pos::VecElem => {
            v.push(0x92);
            v.extend_from_slice(doc);
            v.extend_from_slice(doc);
        }
        Pos::StructField => {
            v.push(0x92);
            v.extend_from_slice(doc);
            v.push(0x07);
        }
        Pos::MapValue => {
            v.extend_from_slice(&[0x81, 0xa1, b'k']);
            v.extend_from_slice(doc);
        }
        Pos::MapKey => {
            v.push(0x81);
            v.extend_from_slice(doc);
            v.push(0x01);
        }
    }
    v
}

pub fn wrong_typed(f: Fmt, type_name: &str) -> Vec<Vec<u8>> {
    match f {
        Fmt::Json => [
            "\"abc\"", "1.5", "true", "null", "[1]", "{\"a\":1}", "300", "-1", "1e400", "-1e400", "1e-400",
            "1234567890123456789012345678901234567890", "-1234567890123456789012345678901234567890", "\"\\u00df\"", "\"ß\"", "\"𝒳\"",
            "\"\\t a \"", "\" x \"", "\"\"", "0", "-0", "-0.0", "1E2", "0.1", "18446744073709551616", "18446744073709551615",
            "9223372036854775808", "-9223372036854775809", "340282366920938463463374607431768211455", " 5 ", "5 5", "[5]", "5.0", "5e0", "\"5\"", "\"NaN\"",
            "NaN", "Infinity", "[]", "{}", "", "\"\\ud800\"", "\"unterminated", "01", "+5", "0x10", "1_000", "[1,2]", "[[3]]", "255", "256", "65536", "-129", "127", "128",
            "3.4028236e38", "1.7976931348623157e308", "1.7976931348623159e308", "4.9e-324", "2e-324", "\"ab\"", "\"abc d\"", "\"A@B\"",
            // long decimal literals next to f32 rounding midpoints (reading at f64 width and narrowing rounds twice), exact f32 values, f64-resolution digits
            "1.000000059604644775390626", "1.000000059604644775390625", "1.00000005960464477", "1.0000000596046448", "16777217.0", "16777217.000000001", "0.100000001490116119384765625",
            "0.30000000000000004", "1.0000001192092896", "2.0000001192092896", "63.99999809265137", "-1.4999999403953552", "8388608.5", "8388609.5",
        ]
        .iter()
        .map(|s| s.as_bytes().to_vec())
        .collect(),
        Fmt::Ron => {
            let t = type_name;
            let mut v: Vec<String> = [
                "5", "(5)", "( 5 )", "-5", "5.", "5.0", "0x10", "1_000", "true", "NaN", "inf", "-inf", "+inf", "\"abc\"", "\"ß\"", "\" x \"", "\"\"", "'a'", "Some(5)", "None",
                "()", "[5]", "[1,2]", "(1,2)", "(x:1,y:2)", "Point(x:1,y:2)", "300", "-1", "1e400", "1e39", "340282366920938463463374607431768211455", "-170141183460469231731687303715884105728",
                "18446744073709551616", "0.1", "1e-400", "-0.0", "0", "255", "256", "65536", "\"ab\"", "\"abc d\"", "r\"raw\"", "r#\"ra\"w\"#", "5 // comment", "/* c */ 5", "",
                "3.4028236e38", "1.7976931348623157e308", "(NaN)", "(inf)",
                "1.000000059604644775390626", "1.000000059604644775390625", "1.00000005960464477", "1.0000000596046448", "16777217.0", "16777217.000000001", "0.100000001490116119384765625",
                "0.30000000000000004", "1.0000001192092896", "2.0000001192092896", "63.99999809265137", "-1.4999999403953552", "8388608.5", "8388609.5",
            ]
            .iter()
            .map(|s| s.to_string())
            .collect();
            for inner in ["5", "-5", "300", "NaN", "inf", "-inf", "\"abc\"", "\" x \"", "\"\"", "0.5", "1e400", "[1,2]", "(x:1,y:2)", "5,", "5, 6", "", "Other(5)", "0", "1", "64.0", "-1.5", "256", "\"ab\"",
                          "1.000000059604644775390626", "1.00000005960464477", "16777217.0", "63.99999809265137"] {
                v.push(format!("{t}({inner})"));
                v.push(format!("{t} ( {inner} )"));
            }
            for ext in ["unwrap_newtypes", "implicit_some", "unwrap_variant_newtypes"] {
                for inner in ["5", "(5)", "\"ab\"", "0.5", "NaN", "[1,2]", "(x:1,y:2)", "300", "-1"] {
                    v.push(format!("#![enable({ext})]\n{inner}"));
                    v.push(format!("#![enable({ext})] {t}({inner})"));
                }
            }
            v.push(format!("{t}({t}(5))"));
            v.push(format!("Other(5)"));
            v.push(format!("{t}"));
            v.push(format!("{t}5"));
            v.into_iter().map(|s| s.into_bytes()).collect()
        }
        Fmt::MsgPack => {
            let mut v: Vec<Vec<u8>> = Vec::new();
            macro_rules! mp {
                ($e:expr) => {
                    v.push(rmp_serde::to_vec(&$e).unwrap())
                };
            }
            mp!(5u8); mp!(200u8); mp!(300u16); mp!(70000u32); mp!(u64::MAX); mp!(-1i8); mp!(-129i16); mp!(-40000i32); mp!(i64::MIN); mp!(0u8); mp!(127u8); mp!(128u8); mp!(255u8); mp!(256u16);
            mp!(1.5f32); mp!(1.5f64); mp!(f32::NAN); mp!(f64::NAN); mp!(f32::INFINITY); mp!(f64::INFINITY); mp!(f64::NEG_INFINITY); mp!(-0.0f64); mp!(-0.0f32); mp!(0.5f64); mp!(64.0f64); mp!(65.0f32); mp!(-1.5f32); mp!(1e300f64); mp!(1e-320f64);
            mp!("abc"); mp!(""); mp!(" x "); mp!("ß"); mp!("ab"); mp!("abcd"); mp!(true); mp!(None::<u8>); mp!(vec![5u8]); mp!(vec![1i32, 2]); mp!((5u8, 6u8)); mp!(std::collections::BTreeMap::from([("a", 1u8)]));
            mp!(crate::value::Point { x: 1, y: 2 }); mp!(crate::value::Point { x: -7, y: -7 });
            v.push(vec![0xc4, 0x02, 0x61, 0x62]); // bin8 "ab"
            v.push(vec![0xc1]); // never used
            v.push(vec![]);
            v.push(vec![0xd4, 0x01, 0x05]); // fixext1
            v.push(vec![0xcf, 0, 0, 0, 0, 0, 0, 0, 5]); // u64-encoded 5 (wrong width)
            v.push(vec![0xd3, 0xff, 0xff, 0xff, 0xff, 0xff, 0xff, 0xff, 0xfb]); // i64-encoded -5
            v.push(vec![0xca, 0x7f, 0xc0, 0x00, 0x01]); // f32 NaN payload
            v.push(vec![0xcb, 0x7f, 0xf0, 0, 0, 0, 0, 0, 1]); // f64 signalling NaN
            v.push(vec![0xcb, 0xff, 0xf0, 0, 0, 0, 0, 0, 0]); // -inf
            v.push(vec![0xd9, 0x02, 0x61, 0x62]); // str8 "ab"
            v.push(vec![0xa2, 0xc3, 0x28]); // invalid utf-8 str
            v
        }
    }
}

pub fn mutations(doc: &[u8], out: &mut Vec<Vec<u8>>) {
    if doc.len() > 48 {
        return;
    }
    for i in 0..doc.len() {
        out.push(doc[..i].to_vec());
        for m in [0x01u8, 0x80, 0x20] {
            let mut d = doc.to_vec();
            d[i] ^= m;
            out.push(d);
        }
        let mut d = doc.to_vec();
        d.insert(i, doc[i]);
        out.push(d);
    }
}

fn show_doc(f: Fmt, b: &[u8]) -> String {
    match f {
        Fmt::MsgPack => format!("msgpack:{}", b.iter().map(|x| format!("{:02x}", x)).collect::<String>()),
        Fmt::Json => format!("json:{:?}", String::from_utf8_lossy(b)),
        Fmt::Ron => format!("ron:{:?}", String::from_utf8_lossy(b)),
    }
}

/// returns the observed list when deserialization succeeded
pub fn check_doc(s: &dyn Subject, rep: &mut DeclReport, f: Fmt, p: Pos, doc: &[u8]) -> Option<Vec<Value>> {
    let obs = s.de(f, p, doc)?;
    let refr = s.de_ref(f, p, doc)?;
    rep.executions += 1;
    let spec = s.spec();
    let input = format!("{:?}@{}", p, show_doc(f, doc));
    // expected: reference parse, then the constructor on every carried inner value
    let mut changed = false;
    let exp: Result<Vec<Value>, String> = match &refr {
        Err(e) => Err(format!("inner value does not deserialize: {e}")),
        Ok(list) => {
            let mut out = Vec::new();
            let mut err = None;
            for raw in list {
                match s.ctor(raw) {
                    Obs::Ok(v) => {
                        if v != *raw {
                            changed = true;
                        }
                        out.push(v)
                    }
                    other => {
                        err = Some(format!("constructor rejects {}: {}", raw.show(), other.show()));
                        break;
                    }
                }
            }
            match err {
                Some(e) => Err(e),
                None => Ok(out),
            }
        }
    };
    let key = format!("{:?}/{:?}", f, p);
    let norm = |mut v: Vec<Value>| {
        if p == Pos::MapKey {
            v.sort();
            v.dedup();
        }
        v
    };
    match (&obs, &exp) {
        (DeObs::Ok(got), Ok(want)) => {
            if norm(got.clone()) != norm(want.clone()) {
                rep.violate(&format!("{:?}:deserialized-value-differs-from-constructor-result", f), input, format!("{:?}", got), format!("{:?}", want), String::new());
            }
            if changed {
                rep.class(&format!("{key}:changed-by-sanitizer"));
                rep.guard(&format!("{key}:changed-by-sanitizer"));
            } else {
                rep.class(&format!("{key}:accepted"));
            }
            rep.guard(&format!("{key}:accepted"));
            rep.bump("accepted");
            let _ = spec;
            return Some(got.clone());
        }
        (DeObs::Ok(got), Err(why)) => {
            rep.violate(&format!("{:?}:guard-bypass", f), input, format!("Ok({:?})", got), format!("Err ({why})"), format!("position {:?}", p));
            return Some(got.clone());
        }
        (DeObs::Err(e), Ok(want)) => {
            rep.violate(&format!("{:?}:rejects-valid-document", f), input, format!("Err({e})"), format!("Ok({:?})", want), String::new());
        }
        (DeObs::Err(_), Err(why)) => {
            if why.starts_with("constructor") {
                rep.class(&format!("{key}:rejected-by-validator"));
                rep.guard(&format!("{key}:rejected-by-validator"));
                rep.bump("rejected-by-validator");
            } else {
                rep.class(&format!("{key}:rejected-by-inner-type"));
                rep.guard(&format!("{key}:rejected-by-inner-type"));
                rep.bump("rejected-by-inner-type");
            }
        }
        (DeObs::Panic(m), _) => {
            rep.violate(&format!("{:?}:panic", f), input, format!("PANIC({m})"), format!("{:?}", exp), String::new());
        }
    }
    None
}

/// every document offered to a declaration: (format, position, bytes)
pub fn for_each_doc(s: &dyn Subject, ctx: &Ctx, mut visit: impl FnMut(Fmt, Pos, &[u8])) {
    let spec = s.spec();
    let raws = doc_raws(spec, ctx);
    let mut counter = 0usize;
    for f in FMTS {
        for p in POSITIONS {
            if s.de(f, p, b"").is_none() {
                continue;
            }
            let mut docs: Vec<Vec<u8>> = Vec::new();
            for raw in &raws {
                if let Some(bs) = s.docs_for(f, p, raw) {
                    docs.extend(bs);
                }
            }
            for w in wrong_typed(f, &spec.type_name) {
                match f {
                    Fmt::MsgPack => docs.push(wrap_mp(p, &w)),
                    _ => {
                        if let Some(t) = wrap_text(f, p, &String::from_utf8_lossy(&w)) {
                            docs.push(t.into_bytes());
                        }
                    }
                }
            }
            docs.sort();
            docs.dedup();
            for d in &docs {
                visit(f, p, d);
                counter += 1;
                let mutate = ctx.tier == Tier::Thorough || counter % 6 == 0;
                if mutate {
                    let mut ms = Vec::new();
                    mutations(d, &mut ms);
                    for m in &ms {
                        visit(f, p, m);
                    }
                }
            }
        }
    }
}

pub fn run(s: &dyn Subject, ctx: &Ctx) -> Option<DeclReport> {
    let spec = s.spec();
    if !spec.has_tag("C04") {
        return None;
    }
    s.de(Fmt::Json, Pos::Bare, b"0")?;
    let mut rep = DeclReport::new("C04", spec);
    let mut nsample = 0;
    let mut work: Vec<(Fmt, Pos, Vec<u8>)> = Vec::new();
    for_each_doc(s, ctx, |f, p, d| work.push((f, p, d.to_vec())));
    for (f, p, d) in &work {
        if let Some(only) = &ctx.only_input {
            if format!("{:?}@{}", p, show_doc(*f, d)) != *only {
                continue;
            }
        }
        let r = check_doc(s, &mut rep, *f, *p, d);
        if r.is_some() && nsample < 3 && rep.executions % 37 == 0 {
            nsample += 1;
            rep.sample(format!("{} :: from {:?}@{} -> Ok({:?})", spec.src.replace('\n', " "), p, show_doc(*f, d), r.unwrap()));
        }
    }
    // in-place deserialization (a public serde entry point; `Vec<T>` uses it for existing elements) and the same document twice in a row:
    // the place must end up holding exactly what `deserialize` yields, and keep its old - valid - value when the document is refused
    if ctx.only_input.is_none() {
        let seed = doc_raws(spec, ctx).into_iter().find(|r| matches!(s.ctor(r), Obs::Ok(_)));
        if let Some(seed) = seed {
            let seed_stored = match s.ctor(&seed) { Obs::Ok(v) => v, _ => unreachable!() };
            // "guarded value": passes the validators as it stands and (built-in sanitizers only) is a sanitisation fixed point
            let guarded_value = |v: &Value| -> bool {
                let (allowed, _, _) = ctx.oracle.validate(spec, v);
                let valid = allowed.iter().any(|o| *o == crate::oracle::Outcome::Accept);
                let fixed = spec.sans.iter().any(|x| matches!(x, San::With(_))) || crate::oracle::sanitize(spec, v) == *v;
                valid && fixed
            };
            let mut n = 0u64;
            for (f, p, d) in work.iter().filter(|w| w.1 == Pos::Bare) {
                let Some(first) = s.de(*f, *p, d) else { break };
                // same document again: history must not matter
                if let Some(second) = s.de(*f, *p, d) {
                    rep.executions += 1;
                    if second != first {
                        rep.violate(&format!("{:?}:same-document-twice-differs", f), format!("{:?}@{}", p, show_doc(*f, d)), format!("{:?}", second), format!("{:?}", first), String::new());
                    }
                }
                let Some((r, place)) = s.de_in_place(*f, d, &seed, false) else { break };
                rep.executions += 1;
                n += 1;
                match (&first, &r) {
                    (DeObs::Ok(v), Ok(())) => {
                        if place != *v {
                            rep.violate(&format!("{:?}:in-place-result-differs-from-deserialize", f), format!("{:?}@{}", p, show_doc(*f, d)), format!("{:?}", place), format!("{:?}", v), String::new());
                        }
                    }
                    (DeObs::Err(_), Err(_)) | (DeObs::Panic(_), Err(_)) => {
                        if place.len() != 1 || place[0] != seed_stored {
                            rep.violate(&format!("{:?}:in-place-leaves-unguarded-value-after-error", f), format!("{:?}@{}", p, show_doc(*f, d)), format!("{:?}", place), seed_stored.show(), String::new());
                        }
                        rep.guard("in_place_refused");
                    }
                    (DeObs::Err(e), Ok(())) => {
                        // `deserialize` can fail on trailing input that `deserialize_in_place` (no end check here) never looks at: then the value must still be a guarded one
                        let ok = place.len() == 1 && guarded_value(&place[0]);
                        if !ok {
                            rep.violate(&format!("{:?}:in-place-accepts-what-deserialize-refuses", f), format!("{:?}@{}", p, show_doc(*f, d)), format!("{:?}", place), format!("Err({e})"), String::new());
                        }
                    }
                    (_, Err(e)) => rep.violate(&format!("{:?}:in-place-refuses-what-deserialize-accepts", f), format!("{:?}@{}", p, show_doc(*f, d)), format!("Err({e})"), format!("{:?}", first), String::new()),
                    (DeObs::Panic(_), Ok(())) => {}
                }
                if n % 7 == 0 {
                    // through serde's Vec<T>::deserialize_in_place: existing elements are refreshed in place
                    let mut vd = Vec::new();
                    match f {
                        Fmt::Json => { vd.push(b'['); vd.extend_from_slice(d); vd.push(b','); vd.extend_from_slice(d); vd.push(b']'); }
                        _ => continue,
                    }
                    if let Some((rv, places)) = s.de_in_place(*f, &vd, &seed, true) {
                        rep.executions += 1;
                        let good = match (&first, &rv) {
                            (DeObs::Ok(v), Ok(())) => v.len() == 1 && places.len() == 2 && places.iter().all(|x| *x == v[0]),
                            (DeObs::Ok(_), Err(_)) => false,
                            (_, Err(_)) => places.iter().all(|x| guarded_value(x)),
                            (_, Ok(())) => places.iter().all(|x| guarded_value(x)),
                        };
                        if !good {
                            rep.violate("Json:vec-in-place-holds-unguarded-or-wrong-values", format!("VecElem@{}", show_doc(*f, &vd)), format!("{:?} / {:?}", rv, places), format!("{:?}", first), String::new());
                        }
                        rep.guard("vec_in_place");
                    }
                }
            }
            rep.guard_add("in_place_documents", n);
        }
    }
    // probing deserializer: which entry point is used, and what the non-newtype visits hand out
    if let Some((log, produced)) = s.de_probe() {
        rep.executions += log.iter().filter(|l| l.contains("rejected") || l.contains("produced")).count() as u64;
        let first = log.first().cloned().unwrap_or_default();
        if first != format!("deserialize_newtype_struct({})", spec.type_name) {
            rep.violate("probe:not-deserialized-as-newtype-struct", "<probe>".into(), format!("{:?}", log), format!("deserialize_newtype_struct({})", spec.type_name), String::new());
        }
        // a visit other than visit_newtype_struct may yield a value only if that value passes the guards
        for (how, v) in &produced {
            let (allowed, _, _) = ctx.oracle.validate(spec, v);
            let valid = allowed.iter().any(|o| *o == crate::oracle::Outcome::Accept);
            let fixed = spec.sans.iter().any(|x| matches!(x, San::With(_))) || crate::oracle::sanitize(spec, v) == *v;
            if !valid || !fixed {
                rep.violate("probe:non-newtype-visit-yields-unguarded-value", format!("<probe:{how}>"), v.show(), format!("{:?}", allowed), String::new());
            }
        }
        rep.guard("probed");
    }
    // the sequence form through serde's own SeqDeserializer: whatever comes back must be what the constructor gives
    for raw in doc_raws(spec, ctx).iter().take(400) {
        let Some(obs) = s.de_seq_form(raw) else { break };
        rep.executions += 1;
        let c = s.ctor(raw);
        match (&obs, &c) {
            (DeObs::Ok(v), Obs::Ok(w)) if v.len() == 1 && v[0] == *w => rep.class("seq-form:accepted-like-constructor"),
            (DeObs::Ok(v), _) => rep.violate("seq-form:yields-value-differing-from-constructor", format!("[{}]", raw.show()), format!("{:?}", v), c.show(), String::new()),
            (DeObs::Panic(m), _) => rep.violate("seq-form:panic", format!("[{}]", raw.show()), m.clone(), c.show(), String::new()),
            (DeObs::Err(_), _) => rep.class("seq-form:rejected"),
        }
    }
    Some(rep)
}
