//! C07 — the error is the first violated rule in declared order; only declared variants exist.
use super::Ctx;
use crate::domain::domain;
use crate::oracle::Outcome;
use crate::report::DeclReport;
use crate::subject::{Obs, Subject};

pub fn run(s: &dyn Subject, ctx: &Ctx) -> Option<DeclReport> {
    let spec = s.spec();
    if !spec.has_tag("C07") || !spec.has_validation() {
        return None;
    }
    let mut rep = DeclReport::new("C07", spec);
    let dom = domain(spec, ctx.tier, ctx.seed);
    for raw in &dom {
        if let Some(only) = &ctx.only_input {
            if raw.show() != *only {
                continue;
            }
        }
        let obs = s.ctor(raw);
        let exp = ctx.oracle.ctor(spec, raw);
        rep.executions += 1;
        if let Obs::Err { variant, .. } = &obs {
            let mut ok = false;
            let mut declared = spec.custom.is_some();
            for o in &exp.allowed {
                match o {
                    Outcome::Reject(i) => {
                        if spec.vals[*i].variant() == variant {
                            ok = true;
                        }
                    }
                    Outcome::RejectCustom(e) => {
                        if e == variant {
                            ok = true;
                        }
                    }
                    Outcome::Accept => {}
                }
            }
            if spec.vals.iter().any(|v| v.variant() == variant) {
                declared = true;
            }
            if !declared {
                rep.violate("undeclared-variant", raw.show(), obs.show(), format!("{:?}", exp.allowed), String::new());
            } else if !ok && !exp.accepts() {
                let exp_names: Vec<String> = exp
                    .allowed
                    .iter()
                    .map(|o| match o {
                        Outcome::Reject(i) => spec.vals[*i].variant().to_string(),
                        Outcome::RejectCustom(e) => e.clone(),
                        Outcome::Accept => "Accept".into(),
                    })
                    .collect();
                let sig = if spec.custom.is_some() { "custom-error-not-returned-unchanged" } else { "not-first-violated-rule" };
                rep.violate(sig, raw.show(), obs.show(), format!("Err({})", exp_names.join("|")), format!("sanitized {}; {} rule(s) violated", exp.sanitized.show(), exp.n_violated));
            }
            // (an Err where the oracle accepts is a C01 matter, not reported here)
            let vclass = if spec.custom.is_some() { "custom-error" } else { variant.as_str() };
            if exp.n_violated >= 2 {
                rep.guard("multi_violation");
                rep.class(&format!("multi:{vclass}"));
                if exp.first_violated.map(|i| i > 0).unwrap_or(false) {
                    rep.guard("first_violated_not_first_declared");
                }
            } else {
                rep.class(&format!("single:{vclass}"));
            }
            rep.bump(&format!("err:{vclass}"));
            if exp.n_violated >= 2 && rep.samples.len() < 2 {
                rep.sample(format!("{} :: try_new({}) -> {} ({} rules violated)", spec.src.replace('\n', " "), raw.show(), obs.show(), exp.n_violated));
            }
        }
    }
    Some(rep)
}
