//! C01 — constructors compute exactly sanitize-then-validate.
use super::Ctx;
use crate::domain::{domain, string_unicode_sweep, Tier};
use crate::oracle::Outcome;
use crate::report::DeclReport;
use crate::spec::*;
use crate::subject::{Obs, Subject};
use crate::value::Value;

pub fn check_one(s: &dyn Subject, ctx: &Ctx, rep: &mut DeclReport, raw: &Value, obs: &Obs, via: &str) {
    check_one_spec(s.spec(), ctx, rep, raw, obs, via)
}

/// The first bound-like validator with its bound replaced by `l` (bounds read from a run-time cell).
fn with_bound(spec: &Spec, l: i64) -> Spec {
    let mut sp = spec.clone();
    for v in sp.vals.iter_mut() {
        let conv = |old: &Value| match old {
            Value::I(_) => Value::I(l as i128),
            Value::U(_) => Value::U(l as u128),
            Value::F32(_) => Value::F32((l as f32).to_bits()),
            Value::F64(_) => Value::F64((l as f64).to_bits()),
            o => o.clone(),
        };
        match v {
            Val::Less(b) => { *v = Val::Less(conv(b)); break; }
            Val::LessEq(b) => { *v = Val::LessEq(conv(b)); break; }
            Val::Greater(b) => { *v = Val::Greater(conv(b)); break; }
            Val::GreaterEq(b) => { *v = Val::GreaterEq(conv(b)); break; }
            Val::LenMax(_) => { *v = Val::LenMax(l as u128); break; }
            Val::LenMin(_) => { *v = Val::LenMin(l as u128); break; }
            _ => {}
        }
    }
    sp
}

fn raw_near(spec: &Spec, x: i64) -> Option<Value> {
    Some(match &spec.fam {
        Fam::Int { signed: true, .. } => Value::I(x as i128),
        Fam::Int { signed: false, bits: 128 } => if x >= 0 { Value::U(x as u128) } else { return None },
        Fam::Int { signed: false, .. } => if x >= 0 { Value::I(x as i128) } else { return None },
        Fam::F32 => Value::F32((x as f32).to_bits()),
        Fam::F64 => Value::F64((x as f64).to_bits()),
        Fam::Str => if x >= 0 { Value::Str("a".repeat(x as usize)) } else { return None },
        _ => return None,
    })
}

pub fn check_one_spec(spec: &Spec, ctx: &Ctx, rep: &mut DeclReport, raw: &Value, obs: &Obs, via: &str) {
    let exp = ctx.oracle.ctor(spec, raw);
    rep.executions += 1;
    let changed = exp.sanitized != *raw;
    match obs {
        Obs::Panic(m) => {
            rep.violate(&format!("{via}:panic"), raw.show(), obs.show(), format!("{:?}", exp.allowed), m.clone());
        }
        Obs::Ok(v) => {
            if !exp.accepts() {
                rep.violate(
                    &format!("{via}:accepted-invalid"),
                    raw.show(),
                    obs.show(),
                    format!("{:?} (sanitized {})", exp.allowed, exp.sanitized.show()),
                    String::new(),
                );
            } else if *v != exp.sanitized {
                rep.violate(
                    &format!("{via}:wrong-stored-value"),
                    raw.show(),
                    obs.show(),
                    format!("Ok({})", exp.sanitized.show()),
                    String::new(),
                );
            }
            if changed {
                rep.class("ok-sanitized");
                rep.guard("sanitizer_changed_value");
            } else {
                rep.class("ok-unchanged");
            }
            rep.bump("ok");
        }
        Obs::Err { variant, .. } => {
            if exp.must_accept() {
                rep.violate(
                    &format!("{via}:rejected-valid"),
                    raw.show(),
                    obs.show(),
                    format!("Ok({})", exp.sanitized.show()),
                    String::new(),
                );
            }
            if !spec.has_validation() {
                rep.violate(&format!("{via}:err-without-validators"), raw.show(), obs.show(), "Ok".into(), String::new());
            }
            // custom error values embed the offending value: one class for all of them
            let vclass = if spec.custom.is_some() { "custom-error" } else { variant.as_str() };
            rep.class(&format!("err:{vclass}"));
            rep.bump(&format!("err:{vclass}"));
        }
    }
    if exp.allowed.len() > 1 {
        rep.bump("nan-vs-bound(unsettled)");
    }
    // bound side coverage
    for (i, val) in spec.vals.iter().enumerate() {
        if let Some(b) = val.bound() {
            if let Some(o) = if exp.sanitized.is_nan() || b.is_nan() { None } else { crate::oracle::num_cmp(&exp.sanitized, b) } {
                rep.guard(&format!("bound{i}:{:?}", o));
            }
        }
    }
    let _ = Outcome::Accept;
}

pub fn run(s: &dyn Subject, ctx: &Ctx) -> Option<DeclReport> {
    let spec = s.spec();
    if !spec.has_tag("C01") {
        return None;
    }
    let mut rep = DeclReport::new("C01", spec);
    let mut dom = if ctx.sweep_slice_only.get() { vec![] } else { domain(spec, ctx.tier, ctx.seed) };
    if ctx.tier == Tier::Thorough && spec.has_tag("unicode_sweep") {
        dom.extend(string_unicode_sweep());
    }
    let exhaustive_int = matches!(spec.fam, Fam::Int { .. }) && spec.fam.int_bits() <= 16;
    if exhaustive_int {
        rep.exhaustive.push((format!("all {}-bit inputs", spec.fam.int_bits()), dom.len() as u64));
    }
    if matches!(spec.fam, Fam::Str) {
        let l = if ctx.tier == Tier::Quick { 3 } else { 4 };
        rep.exhaustive.push((format!("all strings of length <= {l} over the 17-scalar hostile alphabet"), crate::domain::all_strings(l).len() as u64));
    }
    for raw in &dom {
        if let Some(only) = &ctx.only_input {
            if raw.show() != *only {
                continue;
            }
        }
        let obs = s.ctor(raw);
        if rep.samples.len() < 3 && (rep.executions % 997 == 0) {
            rep.sample(format!("{} :: try_new/new({}) -> {}", spec.src.replace('\n', " "), raw.show(), obs.show()));
        }
        check_one(s, ctx, &mut rep, raw, &obs, "ctor");
        if let Value::Str(st) = raw {
            if let Some(o2) = s.ctor_str(st) {
                if o2 != obs {
                    rep.violate("ctor:str-vs-string-differs", raw.show(), o2.show(), obs.show(), String::new());
                }
                if st.len() <= 8 {
                    for (how, o3) in s.ctor_into_variants(st) {
                        rep.executions += 1;
                        if o3 != obs {
                            rep.violate(&format!("ctor:into-string-variant-differs:{how}"), raw.show(), o3.show(), obs.show(), String::new());
                        }
                    }
                }
            }
        }
    }
    // f32 full sweep (thorough, selected declarations)
    if ctx.tier == Tier::Thorough && spec.has_tag("sweep32") && ctx.only_input.is_none() {
        let (a, b) = ctx.sweep_range();
        for bits in a..b {
            let raw = Value::F32(bits as u32);
            let obs = s.ctor(&raw);
            check_one(s, ctx, &mut rep, &raw, &obs, "ctor");
        }
        rep.exhaustive.push((format!("f32 bit patterns {a:#x}..{b:#x} (slice {}/{} of all 2^32)", ctx.part, ctx.parts), b - a));
    }
    // the same inputs from other threads: a fresh thread (first use of any thread-local / lazily initialised state there) and four threads at
    // once (shared statics / caches); each observation must equal the one made sequentially on the main thread
    if ctx.only_input.is_none() && !ctx.sweep_slice_only.get() && !dom.is_empty() && !spec.has_tag("poke") {
        let step = (dom.len() / 150).max(1);
        let sample: Vec<&Value> = dom.iter().enumerate().filter(|(i, _)| *i < 25 || *i + 25 >= dom.len() || i % step == 0).map(|(_, v)| v).collect();
        let base: Vec<Obs> = sample.iter().map(|r| s.ctor(r)).collect();
        let fresh: Vec<Obs> = std::thread::scope(|sc| sc.spawn(|| sample.iter().map(|r| s.ctor(r)).collect::<Vec<_>>()).join()).unwrap_or_default();
        let conc: Vec<Vec<Obs>> = std::thread::scope(|sc| {
            let hs: Vec<_> = (0..4usize).map(|k| { let sample = &sample; sc.spawn(move || {
                // each thread walks the sample from a different offset so that different inputs are in flight at the same time
                let n = sample.len();
                let mut out = vec![None; n];
                for j in 0..n { let i = (j + k * n / 4) % n; out[i] = Some(s.ctor(sample[i])); }
                out.into_iter().map(|o| o.unwrap()).collect::<Vec<Obs>>()
            }) }).collect();
            hs.into_iter().map(|h| h.join().unwrap_or_default()).collect()
        });
        for (i, raw) in sample.iter().enumerate() {
            rep.executions += 5;
            if fresh.get(i) != Some(&base[i]) {
                rep.violate("ctor:differs-on-a-fresh-thread", raw.show(), fresh.get(i).map(|o| o.show()).unwrap_or_else(|| "thread panicked".into()), base[i].show(), String::new());
            }
            for (k, c) in conc.iter().enumerate() {
                if c.get(i) != Some(&base[i]) {
                    rep.violate("ctor:differs-under-concurrent-calls", raw.show(), c.get(i).map(|o| o.show()).unwrap_or_else(|| format!("thread {k} panicked")), base[i].show(), String::new());
                }
            }
        }
        rep.guard_add("inputs_repeated_on_other_threads", sample.len() as u64);
    }
    // bounds read from a run-time cell: every call must compare against what the expression denotes at that call
    if let (Some(seq), false, None) = (spec.tag_value("poke"), ctx.sweep_slice_only.get(), &ctx.only_input) {
        let lims: Vec<i64> = seq.split(',').filter_map(|x| x.parse().ok()).collect();
        for (k, l) in lims.iter().enumerate() {
            if !s.poke(*l) {
                rep.violate("harness:poke-unavailable", String::new(), String::new(), String::new(), String::new());
                break;
            }
            let sp2 = with_bound(spec, *l);
            let mut near: Vec<i64> = (*l - 2..=*l + 2).collect();
            near.extend(lims.iter().flat_map(|m| [*m - 1, *m, *m + 1]));
            for x in near {
                if let Some(raw) = raw_near(spec, x) {
                    let obs = s.ctor(&raw);
                    check_one_spec(&sp2, ctx, &mut rep, &raw, &obs, "ctor-after-bound-change");
                }
            }
            if k > 0 {
                rep.guard("runtime_cell_changed");
            }
        }
        if let Some(first) = lims.first() {
            s.poke(*first);
        }
    }
    // const-evaluated constructor results must agree with the run-time constructor and the oracle
    let consts = if ctx.sweep_slice_only.get() { vec![] } else { s.const_results() };
    for (raw, cobs) in consts {
        let robs = s.ctor(&raw);
        check_one(s, ctx, &mut rep, &raw, &cobs, "const");
        let same = match (&cobs, &robs) {
            (Obs::Ok(a), Obs::Ok(b)) => a == b,
            (Obs::Err { variant: a, .. }, Obs::Err { variant: b, .. }) => a == b,
            _ => false,
        };
        if !same {
            rep.violate("const:differs-from-runtime", raw.show(), cobs.show(), robs.show(), String::new());
        }
        rep.guard("const_evaluated");
    }
    Some(rep)
}
