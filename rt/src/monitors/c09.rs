//! C09 — derived Arbitrary is total and yields only valid values, for every byte input.
//! C14 — integer Arbitrary can produce every valid value (produced set == valid set).
use super::Ctx;
use crate::domain::Tier;
use crate::prng::Rng;
use crate::report::DeclReport;
use crate::spec::*;
use crate::subject::{ArbObs, Obs, Subject};
use crate::value::Value;
use std::sync::atomic::{AtomicU64, Ordering};

/// progress cell read by the stall watchdog: (declaration ordinal << 32) | input ordinal, bumped before every call
pub static PROGRESS: AtomicU64 = AtomicU64::new(0);
pub static CURRENT_DECL: std::sync::Mutex<String> = std::sync::Mutex::new(String::new());
pub static CURRENT_INPUT: std::sync::Mutex<Vec<u8>> = std::sync::Mutex::new(Vec::new());

pub fn hex(b: &[u8]) -> String {
    if b.is_empty() {
        return "<empty>".into();
    }
    b.iter().map(|x| format!("{:02x}", x)).collect()
}
pub fn unhex(s: &str) -> Vec<u8> {
    if s == "<empty>" {
        return vec![];
    }
    (0..s.len() / 2).map(|i| u8::from_str_radix(&s[2 * i..2 * i + 2], 16).unwrap()).collect()
}

/// fixed (seed independent) inputs of DESIGN section 4
pub fn pattern_inputs(spec: &Spec) -> Vec<Vec<u8>> {
    let mut out: Vec<Vec<u8>> = vec![vec![]];
    for len in 1..=64usize {
        out.push(vec![0x00; len]);
        out.push(vec![0xFF; len]);
        out.push(vec![0x80; len]);
        out.push(vec![0x7F; len]);
        out.push((0..len).map(|i| if i % 2 == 0 { 0x00 } else { 0xFF }).collect());
        out.push((0..len).map(|i| if i % 2 == 0 { 0xFF } else { 0x00 }).collect());
        for pos in 0..len.min(16) {
            let mut v = vec![0u8; len];
            v[pos] = 0xFF;
            out.push(v);
        }
    }
    // little-endian encodings of special floats / ints (the words that scale to the bounds)
    for b in crate::domain::f32_specials() {
        out.push(b.to_le_bytes().to_vec());
        out.push(b.to_be_bytes().to_vec());
    }
    for b in crate::domain::f64_specials() {
        out.push(b.to_le_bytes().to_vec());
        out.push(b.to_be_bytes().to_vec());
    }
    for w in [1u64, 2, 0x7FFF_FFFF, 0x8000_0000, 0xFFFF_FFFE, 0xFFFF_FFFF, u64::MAX - 1, u64::MAX / 2, u64::MAX / 2 + 1, 1 << 52, 1 << 53, (1 << 53) + 1] {
        out.push(w.to_le_bytes().to_vec());
        out.push((w as u32).to_le_bytes().to_vec());
    }
    if matches!(spec.fam, Fam::Str) {
        // [len byte] ++ 4-byte LE code points; each also truncated at every byte
        let mut cps: Vec<u32> = crate::domain::ALPHABET.iter().map(|c| *c as u32).collect();
        cps.extend([0u32, 0xD800, 0x10FFFF, 0x110000, 0x0130, 0x00DF, 0x0149, 0x1F88, 0x2028, 0x0085, 0x3000, 0xFB03]);
        let lens: Vec<u8> = vec![0, 1, 2, 3, 4, 5, 16, 17, 40, 0xFF];
        let mut seqs: Vec<Vec<u32>> = vec![vec![]];
        for a in &cps {
            seqs.push(vec![*a]);
            for b in &cps {
                seqs.push(vec![*a, *b]);
            }
        }
        for a in [0x20u32, 0xDF, 0x130, 0x61] {
            for b in [0x20u32, 0xDF, 0x130, 0x61] {
                for c in [0x20u32, 0xDF, 0x130, 0x61] {
                    seqs.push(vec![a, b, c]);
                    seqs.push(vec![a, b, c, a, b, c, 0x20, 0x20, 0x61]);
                }
            }
        }
        for (si, seq) in seqs.iter().enumerate() {
            for (li, l) in lens.iter().enumerate() {
                if (si + li) % 3 != 0 && seq.len() > 1 {
                    continue;
                }
                let mut v = vec![*l];
                for cp in seq {
                    v.extend_from_slice(&cp.to_le_bytes());
                }
                if si % 7 == 0 {
                    for cut in 0..v.len() {
                        out.push(v[..cut].to_vec());
                    }
                }
                // arbitrary takes the length from the *end* of the input for some calls: offer both layouts
                let mut w: Vec<u8> = Vec::new();
                for cp in seq {
                    w.extend_from_slice(&cp.to_le_bytes());
                }
                w.push(*l);
                out.push(w);
                out.push(v);
            }
        }
    }
    out
}

/// unescape a Rust `{:?}` string literal (as printed in the generator's panic message)
pub fn unescape_debug(s: &str) -> Option<String> {
    let s = s.strip_prefix('"')?;
    let mut out = String::new();
    let mut it = s.chars().peekable();
    while let Some(c) = it.next() {
        match c {
            '"' => return Some(out),
            '\\' => match it.next()? {
                'n' => out.push('\n'),
                't' => out.push('\t'),
                'r' => out.push('\r'),
                '0' => out.push('\0'),
                '\\' => out.push('\\'),
                '"' => out.push('"'),
                '\'' => out.push('\''),
                'u' => {
                    if it.next()? != '{' {
                        return None;
                    }
                    let mut h = String::new();
                    loop {
                        let d = it.next()?;
                        if d == '}' {
                            break;
                        }
                        h.push(d);
                    }
                    out.push(char::from_u32(u32::from_str_radix(&h, 16).ok()?)?);
                }
                _ => return None,
            },
            c => out.push(c),
        }
    }
    None
}

fn after<'a>(msg: &'a str, key: &str) -> Option<&'a str> {
    msg.find(key).map(|i| &msg[i + key.len()..])
}

/// classify the cause of an "Arbitrary generated an invalid value" panic from the witness itself
pub fn classify_panic(spec: &Spec, msg: &str) -> String {
    let fam = match spec.fam {
        Fam::Int { .. } => "int",
        Fam::F32 | Fam::F64 => "float",
        Fam::Str => "string",
        Fam::Other => "other",
    };
    if !msg.contains("generated an invalid value") {
        return format!("{fam}:other-panic");
    }
    let verr = after(msg, "Validation error: ").map(|s| s.lines().next().unwrap_or("").trim().to_string()).unwrap_or_else(|| "?".into());
    match spec.fam {
        Fam::Str => {
            let inner = after(msg, "Invalid inner value: ").and_then(unescape_debug);
            let has_case = spec.sans.iter().any(|s| matches!(s, San::Lower | San::Upper));
            if let Some(raw) = inner {
                let n0 = raw.chars().count();
                let sanitized = crate::oracle::sanitize(spec, &Value::Str(raw.clone()));
                let n1 = sanitized.as_str().unwrap().chars().count();
                // case mapping changed the number of characters of the generated string
                let upper_grows = raw.to_uppercase().chars().count() != n0 || raw.to_lowercase().chars().count() != n0;
                if has_case && upper_grows && n1 != crate::oracle::ref_trim(&raw).chars().count() {
                    return "string:case-mapping-changes-char-count".to_string();
                }
                return format!("string:{verr}:sanitized-length-{}", if n1 == n0 { "same" } else { "differs" });
            }
            format!("string:{verr}:unparsed")
        }
        Fam::F32 | Fam::F64 => {
            let is32 = matches!(spec.fam, Fam::F32);
            let txt = after(msg, "Invalid inner value: ").and_then(|s| s.lines().next()).map(|s| s.trim().to_string());
            // parse in the declaration's own float type (f32 Debug output is the shortest f32 representation)
            let x: Option<f64> = txt.and_then(|t| if is32 { t.parse::<f32>().ok().map(|v| v as f64) } else { t.parse::<f64>().ok() });
            let lower = spec.vals.iter().find(|v| matches!(v, Val::Greater(_) | Val::GreaterEq(_)));
            let upper = spec.vals.iter().find(|v| matches!(v, Val::Less(_) | Val::LessEq(_)));
            let Some(x) = x else { return "float:unparsed".to_string() };
            let fmax = if is32 { f32::MAX as f64 } else { f64::MAX };
            let half_ulp_max = if is32 { 2f64.powi(103) } else { 2f64.powi(970) };
            let lo = lower.map(|v| v.bound().unwrap().as_f64().unwrap());
            let hi = upper.map(|v| v.bound().unwrap().as_f64().unwrap());
            if !x.is_finite() {
                // is the non-finite value explained by arithmetic on huge declared bounds?
                let overflow = match (lo, hi) {
                    (Some(l), Some(h)) => {
                        let r = if is32 { ((h as f32) - (l as f32)).abs() as f64 } else { (h - l).abs() };
                        !r.is_finite() || r > fmax
                    }
                    (Some(b), None) | (None, Some(b)) => b.abs() >= half_ulp_max,
                    _ => false,
                };
                return if overflow { "float:non-finite-result-of-overflowing-bound-arithmetic".to_string() } else { "float:non-finite-value-generated".to_string() };
            }
            let delta = if is32 { 0.000_002f64 } else { 0.000_000_000_000_004f64 };
            let absorbed = |b: f64, sign: f64| -> bool {
                if is32 {
                    ((b as f32) + (sign * delta) as f32) == b as f32
                } else {
                    b + sign * delta == b
                }
            };
            if let (Some(l), Some(h)) = (lo, hi) {
                if (h - l).abs() <= 2.0 * delta {
                    return "float:two-sided-range-narrower-than-correction-delta".to_string();
                }
            }
            for (val, b, sign) in [(lower, lo, 1.0f64), (upper, hi, -1.0f64)] {
                if let (Some(v), Some(b)) = (val, b) {
                    let exclusive = matches!(v, Val::Greater(_) | Val::Less(_));
                    if v.variant() == verr {
                        if exclusive && x == b {
                            return format!("float:equals-exclusive-bound:{}", if absorbed(b, sign) { "correction-delta-absorbed-by-rounding" } else { "correction-not-applied" });
                        }
                        let beyond = if sign > 0.0 { x < b } else { x > b };
                        if beyond {
                            let ulp = if is32 { ((b as f32).abs().max(f32::MIN_POSITIVE) * f32::EPSILON) as f64 } else { b.abs().max(f64::MIN_POSITIVE) * f64::EPSILON };
                            let near = (x - b).abs() <= 4.0 * ulp;
                            return format!("float:beyond-bound:{}", if near { "scaled-value-rounds-past-bound" } else { "far" });
                        }
                    }
                }
            }
            "float:other".to_string()
        }
        Fam::Int { .. } => {
            let has_san = !spec.sans.is_empty();
            format!("int:{verr}:{}", if has_san { "custom-sanitizer-moves-value-out-of-range" } else { "generator-range-differs-from-valid-range" })
        }
        Fam::Other => format!("other:{verr}"),
    }
}

pub fn check_arb(s: &dyn Subject, ctx: &Ctx, rep: &mut DeclReport, bytes: &[u8], n: u64) -> Option<Value> {
    let spec = s.spec();
    let _ = n;
    // stall bookkeeping (the watchdog thread reads these)
    if let Ok(mut g) = CURRENT_INPUT.lock() {
        g.clear();
        g.extend_from_slice(bytes);
    }
    PROGRESS.fetch_add(1, Ordering::Relaxed);
    let obs = s.arb(bytes)?;
    rep.executions += 1;
    match obs {
        ArbObs::ArbErr(_) => {
            rep.bump("arbitrary::Error");
            rep.class("arbitrary::Error");
            None
        }
        ArbObs::Panic(m) => {
            let cause = classify_panic(spec, &m);
            rep.violate(&format!("arb-panic:{cause}"), hex(bytes), format!("PANIC({})", m.replace('\n', " ").chars().take(300).collect::<String>()), "a valid value or arbitrary::Error".into(), String::new());
            None
        }
        ArbObs::Ok(v) => {
            // must be valid and a sanitisation fixed point
            // the produced value is a *stored* value: it must satisfy every validator as it is, and (for
            // built-in, hence idempotent, sanitizers) be a sanitisation fixed point
            let (allowed, _, _) = ctx.oracle.validate(spec, &v);
            if !allowed.iter().any(|o| *o == crate::oracle::Outcome::Accept) {
                rep.violate("arb-yields-invalid-value", hex(bytes), v.show(), format!("{:?}", allowed), String::new());
            } else if spec.sans.iter().all(|s| !matches!(s, San::With(_))) {
                let again = crate::oracle::sanitize(spec, &v);
                if again != v {
                    rep.violate("arb-yields-unsanitized-value", hex(bytes), v.show(), again.show(), String::new());
                }
            }
            rep.bump("ok");
            // the take-rest entry point on the same input: whatever it yields is a stored value under the same rules
            if n % 4 == 0 {
                match s.arb_take_rest(bytes) {
                    Some(ArbObs::Ok(w)) => {
                        rep.executions += 1;
                        rep.guard("take_rest_checked");
                        let (al, _, _) = ctx.oracle.validate(spec, &w);
                        if !al.iter().any(|o| *o == crate::oracle::Outcome::Accept) {
                            rep.violate("arb-take-rest-yields-invalid-value", hex(bytes), w.show(), format!("{:?}", al), String::new());
                        }
                    }
                    Some(ArbObs::Panic(m)) => {
                        let cause = classify_panic(spec, &m);
                        rep.violate(&format!("arb-panic:{cause}"), format!("take_rest:{}", hex(bytes)), format!("PANIC({})", m.replace('\n', " ").chars().take(300).collect::<String>()), "a valid value or arbitrary::Error".into(), String::new());
                    }
                    _ => {}
                }
            }
            // bound adjacency observations (corpus-level guards)
            for val in &spec.vals {
                if let Some(b) = val.bound() {
                    if *b == v {
                        rep.guard("result_equals_inclusive_bound");
                    }
                }
            }
            Some(v)
        }
    }
}

pub fn run(s: &dyn Subject, ctx: &Ctx) -> Option<DeclReport> {
    let spec = s.spec();
    if !spec.has_tag("C09") {
        return None;
    }
    // stall bookkeeping first: the availability probe below is itself a call that may not terminate
    *CURRENT_DECL.lock().unwrap() = spec.id.clone();
    CURRENT_INPUT.lock().unwrap().clear();
    PROGRESS.fetch_add(1, Ordering::Relaxed);
    s.arb(&[])?;
    let mut rep = DeclReport::new("C09", spec);
    let mut n = 0u64;
    let mut distinct: std::collections::BTreeSet<Value> = Default::default();
    let mut run_one = |bytes: &[u8], rep: &mut DeclReport, n: &mut u64| {
        if let Some(only) = &ctx.only_input {
            if hex(bytes) != *only {
                return;
            }
        }
        *n += 1;
        if let Some(v) = check_arb(s, ctx, rep, bytes, *n) {
            if distinct.len() < 4096 {
                distinct.insert(v);
            }
        }
    };
    // all inputs up to 2 bytes
    run_one(&[], &mut rep, &mut n);
    for a in 0..=255u8 {
        run_one(&[a], &mut rep, &mut n);
    }
    for a in 0..=255u8 {
        for b in 0..=255u8 {
            run_one(&[a, b], &mut rep, &mut n);
        }
    }
    rep.exhaustive.push(("all byte strings of length <= 2".into(), 65793));
    for p in pattern_inputs(spec) {
        run_one(&p, &mut rep, &mut n);
    }
    let mut rng = Rng::new(ctx.seed ^ 0xC09).derive(&spec.id);
    let nr = if ctx.tier == Tier::Quick { 3000 } else { 100_000 };
    for _ in 0..nr {
        let len = rng.below(129) as usize;
        let mut v = Vec::with_capacity(len);
        for _ in 0..len {
            // bias towards boundary bytes
            let b = match rng.below(4) {
                0 => 0x00,
                1 => 0xFF,
                _ => rng.next_u64() as u8,
            };
            v.push(b);
        }
        run_one(&v, &mut rep, &mut n);
    }
    if ctx.tier == Tier::Thorough && spec.has_tag("sweep32") && ctx.only_input.is_none() {
        let (a, b) = ctx.sweep_range();
        for w in a..b {
            run_one(&(w as u32).to_le_bytes(), &mut rep, &mut n);
        }
        rep.exhaustive.push((format!("4-byte inputs {a:#x}..{b:#x} (slice {}/{} of all 2^32)", ctx.part, ctx.parts), b - a));
    }
    rep.guard_add("distinct_values", distinct.len() as u64);
    if distinct.len() > 1 {
        rep.class("ok:several-values");
    } else if distinct.len() == 1 {
        rep.class("ok:single-value");
    }
    if let Some(v) = distinct.iter().next() {
        rep.sample(format!("{} :: arbitrary over {} byte inputs -> {} distinct valid values, e.g. {}", spec.src.replace('\n', " "), n, distinct.len(), v.show()));
    }
    Some(rep)
}

/// C14: produced set == valid set for integer declarations with at most 2^16 valid values
pub fn run_c14(s: &dyn Subject, ctx: &Ctx) -> Option<DeclReport> {
    let spec = s.spec();
    if !spec.has_tag("C14") {
        return None;
    }
    s.arb(&[])?;
    let mut rep = DeclReport::new("C14", spec);
    // candidate interval from the Python-denoted bounds, widened by 2 on both sides
    let (mut lo, mut hi) = (spec.fam.int_min(), spec.fam.int_max());
    use crate::oracle::num_cmp;
    use std::cmp::Ordering::*;
    for v in &spec.vals {
        match v {
            Val::Greater(b) | Val::GreaterEq(b) => {
                if num_cmp(b, &lo) == Some(Greater) {
                    lo = b.clone()
                }
            }
            Val::Less(b) | Val::LessEq(b) => {
                if num_cmp(b, &hi) == Some(Less) {
                    hi = b.clone()
                }
            }
            _ => {}
        }
    }
    let as_i = |v: &Value| -> Option<i128> {
        match v {
            Value::I(x) => Some(*x),
            Value::U(x) => i128::try_from(*x).ok(),
            _ => None,
        }
    };
    let as_u = |v: &Value| -> u128 {
        match v {
            Value::I(x) => *x as u128,
            Value::U(x) => *x,
            _ => 0,
        }
    };
    let mut valid: std::collections::BTreeSet<Value> = Default::default();
    let u128fam = spec.fam.is_u128();
    if u128fam {
        let (l, h) = (as_u(&lo), as_u(&hi));
        if h < l || h - l > 70_000 {
            rep.inconclusive.push("candidate interval larger than 2^16 (generator error)".into());
            return Some(rep);
        }
        let mut c = l.saturating_sub(2);
        let end = h.saturating_add(2);
        loop {
            let v = Value::U(c);
            let acc = ctx.oracle.ctor(spec, &v).must_accept();
            let real = s.ctor(&v).is_ok();
            if acc != real {
                rep.inconclusive.push(format!("oracle and try_new disagree on candidate {} (C01 matter)", v.show()));
            }
            if acc {
                valid.insert(v);
            }
            if c == end {
                break;
            }
            c += 1;
        }
    } else {
        let (Some(l), Some(h)) = (as_i(&lo), as_i(&hi)) else { return None };
        if h < l || h - l > 70_000 {
            rep.inconclusive.push("candidate interval larger than 2^16 (generator error)".into());
            return Some(rep);
        }
        let (tmin, tmax) = (as_i(&spec.fam.int_min()).unwrap(), as_i(&spec.fam.int_max()).unwrap_or(i128::MAX));
        let mut c = (l.saturating_sub(2)).max(tmin);
        let end = (h.saturating_add(2)).min(tmax);
        while c <= end {
            let v = Value::I(c);
            let acc = ctx.oracle.ctor(spec, &v).must_accept();
            let real = s.ctor(&v).is_ok();
            if acc != real {
                rep.inconclusive.push(format!("oracle and try_new disagree on candidate {} (C01 matter)", v.show()));
            }
            if acc {
                valid.insert(v);
            }
            if c == end {
                break;
            }
            c += 1;
        }
    }
    if valid.is_empty() {
        rep.inconclusive.push("valid set empty (generator error)".into());
        return Some(rep);
    }
    let mut produced: std::collections::BTreeSet<Value> = Default::default();
    let mut produced_rest: std::collections::BTreeSet<Value> = Default::default();
    let mut offer = |bytes: &[u8], rep: &mut DeclReport| {
        rep.executions += 1;
        if let Some(ArbObs::Ok(v)) = s.arb(bytes) {
            produced.insert(v);
        }
        if let Some(ArbObs::Ok(v)) = s.arb_take_rest(bytes) {
            produced_rest.insert(v);
        }
    };
    offer(&[], &mut rep);
    for a in 0..=255u8 {
        offer(&[a], &mut rep);
    }
    for a in 0..=255u8 {
        for b in 0..=255u8 {
            offer(&[a, b], &mut rep);
        }
    }
    rep.exhaustive.push(("all byte strings of length <= 2 (int_in_range consumes <= 2 bytes for <= 2^16 values)".into(), 65793));
    let missing: Vec<&Value> = valid.difference(&produced).collect();
    if !missing.is_empty() {
        let first = missing[0];
        let last = missing[missing.len() - 1];
        let at_top = valid.iter().next_back() == Some(last);
        let at_bottom = valid.iter().next() == Some(first);
        let where_ = match (at_bottom, at_top) {
            (true, true) => "both-ends-or-all",
            (false, true) => "top-of-range",
            (true, false) => "bottom-of-range",
            _ => "interior",
        };
        rep.violate(&format!("valid-values-never-produced:{where_}"), format!("{} valid values", valid.len()), format!("{} produced; missing {} e.g. {} .. {}", produced.len(), missing.len(), first.show(), last.show()), "produced set == valid set".into(), String::new());
    }
    // `arbitrary_take_rest` is the same generator handed the whole remaining input: over the same inputs it must reach every valid value too
    let missing_rest: Vec<&Value> = valid.difference(&produced_rest).collect();
    if !missing_rest.is_empty() && missing.is_empty() {
        rep.violate("valid-values-never-produced-by-take-rest", format!("{} valid values", valid.len()), format!("{} produced through arbitrary_take_rest; missing {} e.g. {} .. {}", produced_rest.len(), missing_rest.len(), missing_rest[0].show(), missing_rest[missing_rest.len() - 1].show()), "produced set == valid set".into(), String::new());
    }
    rep.guard_add(&format!("range_size_{}", valid.len()), 1);
    rep.class(&format!("range-size-{}", valid.len()));
    rep.sample(format!("{} :: valid set {} values [{} .. {}]; produced set {} values", spec.src.replace('\n', " "), valid.len(), valid.iter().next().unwrap().show(), valid.iter().next_back().unwrap().show(), produced.len()));
    let _ = Obs::Ok(Value::I(0));
    Some(rep)
}
