//! C11 — stored values are canonical: re-entering any entry point reproduces them.
use super::Ctx;
use crate::domain::{domain, string_unicode_sweep, Tier};
use crate::prng::Rng;
use crate::report::DeclReport;
use crate::subject::{Obs, ParseObs, Subject};
use crate::value::Value;

/// one re-entry step: Some(Ok(v')) / Some(Err(desc)) / None if the step is not available or its precondition fails
fn step(s: &dyn Subject, k: usize, v: &Value, rep: &mut DeclReport) -> Option<Result<Value, String>> {
    let conv = |o: Obs| match o {
        Obs::Ok(x) => Ok(x),
        other => Err(other.show()),
    };
    match k {
        0 => Some(conv(s.ctor(v))),
        1 => s.try_from_inner(v).map(conv),
        2 => s.from_inner(v).map(conv),
        3 => {
            // Display -> FromStr
            let views = s.views(v)?;
            let shown = views.display?.first()?.clone();
            if let Value::Str(_) = v {
                return s.parse_string(&shown).map(conv);
            }
            // precondition: the *inner* type's own Display/FromStr round trip reproduces the value
            let inner_shown = views.display_inner.first()?.clone();
            match s.inner_parse(&inner_shown)? {
                Ok(back) if back == *v => {}
                _ => {
                    rep.guard("display_fromstr_precondition_failed(skipped)");
                    return None;
                }
            }
            Some(match s.parse(&shown)? {
                ParseObs::Ok(x) => Ok(x),
                other => Err(other.show()),
            })
        }
        4 | 5 | 6 => {
            // Serialize -> Deserialize in one format; precondition: the inner value itself survives that format
            let f = [crate::subject::Fmt::Json, crate::subject::Fmt::Ron, crate::subject::Fmt::MsgPack][k - 4];
            let o = s.ser(f, v)?;
            match o.inner_roundtrip? {
                Ok(back) if back == *v => {}
                _ => {
                    rep.guard("serde_precondition_failed(skipped)");
                    return None;
                }
            }
            o.t_roundtrip
        }
        _ => None,
    }
}

const STEP_NAMES: [&str; 7] = ["into_inner->try_new/new", "into_inner->TryFrom", "into_inner->From", "Display->FromStr", "Serialize->Deserialize(JSON)", "Serialize->Deserialize(RON)",
    "Serialize->Deserialize(MessagePack)"];

pub fn run(s: &dyn Subject, ctx: &Ctx) -> Option<DeclReport> {
    let spec = s.spec();
    // "C11": the declaration's sanitizers are idempotent by construction, every obtainable value must be canonical.
    // "C11v": a custom sanitizer is not idempotent in general; the property is then demanded only of values that the
    // reference model itself maps to themselves (sanitize(v) == v and v valid) - for those C01 already implies it.
    let strict = spec.has_tag("C11");
    if !strict && !spec.has_tag("C11v") {
        return None;
    }
    // value-wise applicability is decided on the *raw input* with the reference model alone: the model accepts it and maps its own
    // result to itself. Then C01 already implies that the real stored value is a fixed point of the real constructor.
    let canonical = |raw: &Value| -> bool {
        if strict {
            return true;
        }
        let e = ctx.oracle.ctor(spec, raw);
        if !e.must_accept() {
            return false;
        }
        let e2 = ctx.oracle.ctor(spec, &e.sanitized);
        e2.must_accept() && e2.sanitized == e.sanitized
    };
    let mut rep = DeclReport::new("C11", spec);
    let mut dom = domain(spec, ctx.tier, ctx.seed);
    if ctx.tier == Tier::Thorough && spec.has_tag("unicode_sweep") {
        dom.extend(string_unicode_sweep());
    }
    // the value `Default::default()` hands out is an obtainable value as well
    if ctx.only_input.is_none() && !spec.has_tag("default_seq") {
        if let (Some(Obs::Ok(w)), Some(draw)) = (s.default(), spec.default.as_ref()) {
            if canonical(draw) {
                rep.executions += 1;
                rep.guard("default_value_re_entered");
                match s.ctor(&w) {
                    Obs::Ok(z) if z == w => {}
                    other => rep.violate("value-from-Default-is-not-a-constructor-fixed-point", format!("<default {}>", draw.show()), format!("{} -> {}", w.show(), other.show()), w.show(), String::new()),
                }
            }
        }
    }
    let mut rng = Rng::new(ctx.seed ^ 0xC11).derive(&spec.id);
    let chain_len = if ctx.tier == Tier::Quick { 2 } else { 4 };
    for raw in &dom {
        if let Some(only) = &ctx.only_input {
            if raw.show() != *only {
                continue;
            }
        }
        // values obtained through the other entry points are obtainable values too: each must be a fixed point of the constructor
        let mut others: Vec<(&str, Obs)> = Vec::new();
        if let Some(o) = s.try_from_inner(raw) {
            others.push(("TryFrom", o));
        }
        if let Some(o) = s.from_inner(raw) {
            others.push(("From", o));
        }
        if let Value::Str(st) = raw {
            for (how, o) in [("TryFrom<&str>", s.try_from_str(st)), ("From<&str>", s.from_str_ref(st)), ("FromStr", s.parse_string(st))] {
                if let Some(o) = o {
                    others.push((how, o));
                }
            }
        }
        for (how, o) in others {
            if let Obs::Ok(w) = o {
                if !canonical(raw) {
                    rep.guard("model_value_not_canonical(skipped)");
                    continue;
                }
                rep.executions += 1;
                match s.ctor(&w) {
                    Obs::Ok(z) if z == w => {}
                    other => rep.violate(&format!("value-from-{how}-is-not-a-constructor-fixed-point"), raw.show(), format!("{} -> {}", w.show(), other.show()), w.show(), String::new()),
                }
            }
        }
        let v = match s.ctor(raw) {
            Obs::Ok(v) => v,
            _ => continue,
        };
        if !canonical(raw) {
            rep.guard("model_value_not_canonical(skipped)");
            continue;
        }
        if v != *raw {
            rep.guard("stored_differs_from_raw");
            rep.class("value-changed-by-sanitizer");
        } else {
            rep.class("value-unchanged");
        }
        // every single step from v
        for k in 0..7 {
            if let Some(r) = step(s, k, &v, &mut rep) {
                rep.executions += 1;
                rep.bump(STEP_NAMES[k]);
                match r {
                    Ok(w) if w == v => {}
                    Ok(w) => rep.violate(&format!("step-moves-value:{}", STEP_NAMES[k]), raw.show(), format!("{} -> {}", v.show(), w.show()), v.show(), String::new()),
                    Err(e) => rep.violate(&format!("step-fails:{}", STEP_NAMES[k]), raw.show(), format!("{} -> {}", v.show(), e), v.show(), String::new()),
                }
            }
        }
        // a random chain (only informative if some step moved: it shows where the value drifts to)
        if strict && rng.chance(1, 16) {
            let mut cur = v.clone();
            let mut path = Vec::new();
            for _ in 0..chain_len {
                let k = rng.below(7) as usize;
                if let Some(r) = step(s, k, &cur, &mut rep) {
                    rep.executions += 1;
                    path.push(STEP_NAMES[k]);
                    match r {
                        Ok(w) => cur = w,
                        Err(e) => {
                            rep.violate("chain-fails", raw.show(), format!("{:?} -> {}", path, e), v.show(), String::new());
                            break;
                        }
                    }
                }
            }
            if cur != v {
                rep.violate("chain-drifts", raw.show(), format!("{:?} -> {}", path, cur.show()), v.show(), String::new());
            }
            rep.guard("chains");
        }
        if rep.samples.is_empty() && v != *raw {
            rep.sample(format!("{} :: try_new({}) = {} ; re-entering via every derived entry point stays on it", spec.src.replace('\n', " "), raw.show(), v.show()));
        }
    }
    Some(rep)
}
