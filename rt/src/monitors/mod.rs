pub mod c01;
pub mod c03;
pub mod c04;
pub mod c10;
pub mod c06;
pub mod c07;
pub mod c09;
pub mod c11;
pub mod c12;
pub mod c13;
pub mod c16;

use crate::domain::Tier;
use crate::oracle::Oracle;
use crate::report::DeclReport;
use crate::subject::{Obs, Subject};
use std::collections::BTreeMap;

pub struct Ctx {
    pub tier: Tier,
    pub seed: u64,
    pub oracle: Oracle,
    /// replay: only this input (Debug rendering of the Value / raw string)
    pub only_input: Option<String>,
    /// file that receives "<decl> <input index>" before each potentially non-terminating call
    pub heartbeat: Option<String>,
    pub part: usize,
    pub parts: usize,
    /// set by the runner when this process does not own the declaration and must only do its slice of a 2^32 sweep
    pub sweep_slice_only: std::cell::Cell<bool>,
}

impl Ctx {
    /// this process's slice of 0..=u32::MAX
    pub fn sweep_range(&self) -> (u64, u64) {
        let total: u64 = 1u64 << 32;
        let a = total * self.part as u64 / self.parts as u64;
        let b = total * (self.part as u64 + 1) / self.parts as u64;
        (a, b)
    }
}

pub type Monitor = fn(&dyn Subject, &Ctx) -> Option<DeclReport>;

pub fn monitor_for(property: &str) -> Option<Monitor> {
    match property {
        "C01" => Some(c01::run),
        "C03" => Some(c03::run),
        "C04" => Some(c04::run),
        "C09" => Some(c09::run),
        "C14" => Some(c09::run_c14),
        "C10" => Some(c10::run),
        "C06" => Some(c06::run),
        "C07" => Some(c07::run),
        "C11" => Some(c11::run),
        "C12" => Some(c12::run),
        "C13" => Some(c13::run),
        "C16" => Some(c16::run),
        _ => None,
    }
}

fn same_outcome(a: &Obs, b: &Obs) -> bool {
    match (a, b) {
        (Obs::Ok(x), Obs::Ok(y)) => x == y,
        (Obs::Err { variant: x, .. }, Obs::Err { variant: y, .. }) => x == y,
        _ => false,
    }
}

/// monitors that need several declarations at once
pub fn cross(property: &str, subjects: &[Box<dyn Subject>], ctx: &Ctx, only: Option<&str>) -> Vec<DeclReport> {
    let mut out = Vec::new();
    if property == "C01" {
        // twins: plain / const_fn / generic / renamed declarations with the same Spec must agree on every input
        let mut groups: BTreeMap<String, Vec<&dyn Subject>> = BTreeMap::new();
        for s in subjects {
            if let Some(g) = s.spec().tag_value("twin") {
                groups.entry(g.to_string()).or_default().push(s.as_ref());
            }
        }
        for (g, members) in groups {
            if members.len() < 2 {
                continue;
            }
            if let Some(o) = only {
                if !members.iter().any(|m| m.spec().id == o) {
                    continue;
                }
            }
            let first = members[0];
            let mut rep = DeclReport::new("C01", first.spec());
            rep.decl = format!("twins:{g}");
            let dom = crate::domain::domain(first.spec(), ctx.tier, ctx.seed);
            for raw in &dom {
                let base = first.ctor(raw);
                for m in &members[1..] {
                    let o = m.ctor(raw);
                    rep.executions += 1;
                    if !same_outcome(&base, &o) {
                        rep.violate(
                            "twin:outcome-differs",
                            raw.show(),
                            format!("{} -> {}", m.spec().id, o.show()),
                            format!("{} -> {}", first.spec().id, base.show()),
                            format!("twin kinds: {:?}", members.iter().map(|m| m.spec().tag_value("twinkind").unwrap_or("?").to_string()).collect::<Vec<_>>()),
                        );
                    }
                }
            }
            rep.class("twins-agree");
            rep.guard_add("twin_members", members.len() as u64);
            out.push(rep);
        }
    }
    out
}
