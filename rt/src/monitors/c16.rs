//! C16 — validation error messages state the violated rule truthfully.
use super::Ctx;
use crate::report::DeclReport;
use crate::spec::*;
use crate::subject::{Obs, ParseObs, Subject};
use crate::value::Value;

#[derive(Clone, Copy, Debug, PartialEq, Eq)]
pub enum Rel {
    Gt,
    Ge,
    Lt,
    Le,
}

/// closed but deliberately broad phrase dictionary (longest first)
const PHRASES: &[(&str, Rel)] = &[
    ("greater than or equal to", Rel::Ge),
    ("greater or equal to", Rel::Ge),
    ("greater or equal than", Rel::Ge),
    ("more than or equal to", Rel::Ge),
    ("not less than", Rel::Ge),
    ("no less than", Rel::Ge),
    ("at least", Rel::Ge),
    ("less than or equal to", Rel::Le),
    ("less or equal to", Rel::Le),
    ("less or equal than", Rel::Le),
    ("not greater than", Rel::Le),
    ("not more than", Rel::Le),
    ("no more than", Rel::Le),
    ("at most", Rel::Le),
    ("greater than", Rel::Gt),
    ("more than", Rel::Gt),
    ("bigger than", Rel::Gt),
    ("above", Rel::Gt),
    ("less than", Rel::Lt),
    ("fewer than", Rel::Lt),
    ("smaller than", Rel::Lt),
    ("below", Rel::Lt),
];

pub fn read_relation(msg: &str) -> Result<Rel, String> {
    let mut rest = msg.to_lowercase();
    let mut found: Vec<Rel> = Vec::new();
    for (p, r) in PHRASES {
        while let Some(i) = rest.find(p) {
            found.push(*r);
            rest.replace_range(i..i + p.len(), &"#".repeat(p.len()));
        }
    }
    match found.len() {
        1 => Ok(found[0]),
        0 => Err("no recognisable relation phrase".into()),
        _ => Err(format!("several relation phrases: {:?}", found)),
    }
}

fn holds(rel: Rel, o: std::cmp::Ordering) -> bool {
    use std::cmp::Ordering::*;
    match rel {
        Rel::Gt => o == Greater,
        Rel::Ge => o != Less,
        Rel::Lt => o == Less,
        Rel::Le => o != Greater,
    }
}

fn render_bound(v: &Value) -> String {
    match v {
        Value::I(x) => format!("{:#?}", x),
        Value::U(x) => format!("{:#?}", x),
        Value::F32(b) => format!("{:#?}", f32::from_bits(*b)),
        Value::F64(b) => format!("{:#?}", f64::from_bits(*b)),
        _ => String::new(),
    }
}

fn float_step(v: &Value, up: bool) -> Option<Value> {
    match v {
        Value::F32(b) => {
            let x = f32::from_bits(*b);
            if !x.is_finite() {
                return None;
            }
            let y = if up { next_up32(x) } else { -next_up32(-x) };
            Some(Value::f32(y))
        }
        Value::F64(b) => {
            let x = f64::from_bits(*b);
            if !x.is_finite() {
                return None;
            }
            let y = if up { next_up64(x) } else { -next_up64(-x) };
            Some(Value::f64(y))
        }
        _ => None,
    }
}
fn next_up32(x: f32) -> f32 {
    if x == 0.0 {
        return f32::from_bits(1);
    }
    let b = x.to_bits();
    if x > 0.0 { f32::from_bits(b + 1) } else { f32::from_bits(b - 1) }
}
fn next_up64(x: f64) -> f64 {
    if x == 0.0 {
        return f64::from_bits(1);
    }
    let b = x.to_bits();
    if x > 0.0 { f64::from_bits(b + 1) } else { f64::from_bits(b - 1) }
}

/// probe points around the bound: (raw input, measured quantity compared with the bound)
fn probes(spec: &Spec, val: &Val) -> Vec<(Value, Value, Value)> {
    // returns (raw, quantity, bound) with quantity/bound comparable by num_cmp
    let mut out = Vec::new();
    match val {
        Val::LenMin(n) | Val::LenMax(n) => {
            let n = *n as i128;
            for m in [n - 1, n, n + 1] {
                if (0..=4096).contains(&m) {
                    for fill in ['q', 'ß'] {
                        let s: String = std::iter::repeat(fill).take(m as usize).collect();
                        out.push((Value::Str(s), Value::I(m), Value::I(n)));
                    }
                }
            }
        }
        Val::Less(b) | Val::LessEq(b) | Val::Greater(b) | Val::GreaterEq(b) => match b {
            Value::I(x) => {
                for d in [-10i128, 10, -1, 0, 1] {
                    if let Some(y) = x.checked_add(d) {
                        let v = Value::I(y);
                        use crate::oracle::num_cmp;
                        use std::cmp::Ordering::*;
                        if num_cmp(&v, &spec.fam.int_min()) != Some(Less) && num_cmp(&v, &spec.fam.int_max()) != Some(Greater) {
                            out.push((v.clone(), v, b.clone()));
                        }
                    }
                }
            }
            Value::U(x) => {
                for d in [-1i128, 0, 1] {
                    let y = if d < 0 { x.checked_sub(1) } else { x.checked_add(d as u128) };
                    if let Some(y) = y {
                        out.push((Value::U(y), Value::U(y), b.clone()));
                    }
                }
            }
            Value::F32(_) | Value::F64(_) => {
                // farther probes first: they obtain the message even if the code is lenient right at the bound
                let x = b.as_f64().unwrap();
                for far in [x - 1.0, x + 1.0, x - x.abs() * 0.01 - 0.25, x + x.abs() * 0.01 + 0.25] {
                    if far.is_finite() {
                        let v = if matches!(b, Value::F32(_)) { Value::f32(far as f32) } else { Value::f64(far) };
                        out.push((v.clone(), v, b.clone()));
                    }
                }
                if let Some(d) = float_step(b, false) {
                    out.push((d.clone(), d, b.clone()));
                }
                out.push((b.clone(), b.clone(), b.clone()));
                if x == 0.0 {
                    // the zero of the other sign is numerically *at* the bound
                    let other = if matches!(b, Value::F32(_)) { Value::f32(-(x as f32)) } else { Value::f64(-x) };
                    out.push((other.clone(), other, b.clone()));
                }
                if let Some(u) = float_step(b, true) {
                    out.push((u.clone(), u, b.clone()));
                }
            }
            _ => {}
        },
        _ => {}
    }
    out
}

pub fn run(s: &dyn Subject, ctx: &Ctx) -> Option<DeclReport> {
    let spec = s.spec();
    if !spec.has_tag("C16") {
        return None;
    }
    let _ = ctx;
    let mut rep = DeclReport::new("C16", spec);
    for val in &spec.vals {
        let ps = probes(spec, val);
        if ps.is_empty() {
            continue;
        }
        // obtain the message from any rejected probe
        let mut msg: Option<String> = None;
        let mut alt_formats: Vec<(&'static str, String)> = Vec::new();
        let mut verdicts = Vec::new();
        for (raw, q, b) in &ps {
            let obs = s.ctor(raw);
            rep.executions += 1;
            match &obs {
                Obs::Err { variant, display } if variant == val.variant() => {
                    if msg.is_none() {
                        alt_formats = crate::subject::last_error_formats();
                    }
                    msg.get_or_insert(display.clone());
                    verdicts.push((raw.clone(), q.clone(), b.clone(), false));
                }
                Obs::Ok(_) => verdicts.push((raw.clone(), q.clone(), b.clone(), true)),
                _ => {}
            }
        }
        let Some(msg) = msg else {
            rep.inconclusive.push(format!("no probe produced {}", val.variant()));
            continue;
        };
        rep.bump(val.variant());
        if !msg.contains(&spec.type_name) {
            rep.violate("message-does-not-name-type", val.variant().into(), msg.clone(), spec.type_name.clone(), String::new());
        }
        let btxt = match val {
            Val::LenMin(n) | Val::LenMax(n) => n.to_string(),
            other => render_bound(other.bound().unwrap()),
        };
        if !msg.contains(&btxt) {
            rep.violate("message-does-not-state-bound", val.variant().into(), msg.clone(), btxt.clone(), String::new());
        }
        // formatting flags of the caller must not change what the message states: under `{:.1}`, `{:+}`, `{:#}`, `{:08}` the text is either the
        // same, a prefix of it (precision applied to the whole message) or still names the bound as it is
        for (spec_txt, t) in &alt_formats {
            rep.executions += 1;
            rep.guard("message_under_format_flags");
            let same = t == &msg || msg.starts_with(t.as_str()) || t.trim() == msg.trim();
            if !same && !t.contains(&btxt) {
                rep.violate("message-does-not-state-bound-under-format-flags", format!("{} / {}", val.variant(), spec_txt), t.clone(), format!("{msg} (bound {btxt})"), String::new());
            }
        }
        match read_relation(&msg) {
            Err(why) => rep.inconclusive.push(format!("{}: {} in {:?}", val.variant(), why, msg)),
            Ok(rel) => {
                rep.class(&format!("{}:{:?}", val.variant(), rel));
                rep.guard("relation_parsed");
                for (raw, q, b, accepted) in &verdicts {
                    rep.executions += 1;
                    let o = crate::oracle::num_cmp(q, b).unwrap();
                    let stated = holds(rel, o);
                    if stated != *accepted {
                        let family = match spec.fam {
                            Fam::Int { .. } => "int",
                            Fam::F32 | Fam::F64 => "float",
                            Fam::Str => "string",
                            Fam::Other => "other",
                        };
                        let pos = match o {
                            std::cmp::Ordering::Less => "below-bound",
                            std::cmp::Ordering::Equal => "at-bound",
                            std::cmp::Ordering::Greater => "above-bound",
                        };
                        rep.violate(
                            &format!("untruthful-message:{family}:{}:says-{:?}:{pos}", val.variant(), rel),
                            raw.show(),
                            format!("message {:?} => value {} {}", msg, if stated { "allowed" } else { "forbidden" }, pos),
                            format!("constructor {} it", if *accepted { "accepts" } else { "rejects" }),
                            String::new(),
                        );
                    }
                }
                rep.sample(format!("{} :: {} says {:?} ({:?} {}), checked against try_new at {} points", spec.src.replace('\n', " "), val.variant(), msg, rel, btxt, verdicts.len()));
            }
        }
        // the same text is what FromStr errors embed
        for (raw, _, _, accepted) in &verdicts {
            if *accepted {
                continue;
            }
            let shown = match raw {
                Value::I(x) => x.to_string(),
                Value::U(x) => x.to_string(),
                Value::F32(b) => format!("{:?}", f32::from_bits(*b)),
                Value::F64(b) => format!("{:?}", f64::from_bits(*b)),
                Value::Str(x) => x.clone(),
                _ => continue,
            };
            if let Some(ParseObs::Validate { display, .. }) = s.parse(&shown) {
                rep.executions += 1;
                rep.guard("fromstr_embeds");
                if !display.contains(&msg) {
                    rep.violate("fromstr-error-does-not-embed-message", raw.show(), display.clone(), msg.clone(), String::new());
                }
            }
            if let Some(Obs::Err { display, .. }) = s.parse_string(&shown) {
                rep.executions += 1;
                rep.guard("fromstr_embeds");
                if !display.contains(&msg) {
                    rep.violate("fromstr-error-does-not-embed-message", raw.show(), display.clone(), msg.clone(), String::new());
                }
            }
            // ... and what serde errors embed (declarations deriving Deserialize)
            for f in crate::subject::FMTS {
                if let Some(docs) = s.docs_for(f, crate::subject::Pos::Bare, raw) {
                    for d in docs {
                        if let Some(crate::subject::DeObs::Err(e)) = s.de(f, crate::subject::Pos::Bare, &d) {
                            // only errors that come from the validator (the reference newtype parses the document)
                            if let Some(Ok(_)) = s.de_ref(f, crate::subject::Pos::Bare, &d) {
                                rep.executions += 1;
                                rep.guard("serde_embeds");
                                if !e.contains(&msg) {
                                    rep.violate("serde-error-does-not-embed-message", format!("{:?}:{}", f, String::from_utf8_lossy(&d)), e.clone(), msg.clone(), String::new());
                                }
                            }
                        }
                    }
                }
            }
            break;
        }
    }
    // the parse path: whenever FromStr answers with a *validation* error for a numeric text, the rule it names must really be violated by
    // the number the text denotes - also for texts beyond the inner type's range (on a correct tree those are parse errors and nothing is asserted)
    if matches!(spec.fam, Fam::Int { .. } | Fam::F32 | Fam::F64) && ctx.only_input.is_none() {
        let nines = "9".repeat(41);
        let mut texts: Vec<String> = ["300", "-300", "70000", "-70000", "5000000000", "-5000000000", "99999999999999999999", "-99999999999999999999",
            "340282366920938463463374607431768211456", "-170141183460469231731687303715884105729", "256", "-129", "128", "65536", "-32769", "4294967296", "-2147483649",
            "18446744073709551616", "-9223372036854775809", "-1"]
            .iter()
            .map(|x| x.to_string())
            .collect();
        texts.push(nines.clone());
        texts.push(format!("-{nines}"));
        for t in texts {
            let Some(ParseObs::Validate { variant, display, .. }) = s.parse(&t) else { continue };
            let Some(val) = spec.vals.iter().find(|v| v.variant() == variant) else { continue };
            let Some(b) = val.bound() else { continue };
            let Ok(rel) = read_relation(&display) else { continue };
            // exact comparison of the denoted number with the bound (no rounding through f64 for integers)
            let neg = t.starts_with('-');
            let o = match b {
                Value::I(v) => match t.parse::<i128>() {
                    Ok(x) => x.cmp(v),
                    Err(_) => if neg { std::cmp::Ordering::Less } else { std::cmp::Ordering::Greater },
                },
                Value::U(v) => match t.parse::<u128>() {
                    Ok(x) => x.cmp(v),
                    Err(_) => if neg { std::cmp::Ordering::Less } else { std::cmp::Ordering::Greater },
                },
                Value::F32(_) | Value::F64(_) => {
                    let bf = match b { Value::F32(v) => f32::from_bits(*v) as f64, Value::F64(v) => f64::from_bits(*v), _ => unreachable!() };
                    let Ok(x) = t.parse::<f64>() else { continue };
                    if x == bf { continue }
                    let Some(o) = x.partial_cmp(&bf) else { continue };
                    o
                }
                _ => continue,
            };
            rep.executions += 1;
            rep.guard("parse_path_validation_errors_checked");
            if holds(rel, o) {
                rep.violate(
                    &format!("untruthful-message:parse-path:{}:says-{:?}", variant, rel),
                    format!("{t:?}.parse()"),
                    format!("{:?}", display),
                    format!("a rule that {t} violates (the stated one, {:?} {}, holds for it)", rel, render_bound(b)),
                    String::new(),
                );
            }
        }
    }
    Some(rep)
}
