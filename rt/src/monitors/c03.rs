//! C03 — TryFrom / From / string FromStr / Default agree with the canonical constructor.
use super::Ctx;
use crate::domain::domain;
use crate::report::DeclReport;
use crate::subject::{Obs, Subject};
use crate::value::Value;

fn cmp(rep: &mut DeclReport, via: &str, raw: &Value, got: &Obs, base: &Obs) {
    rep.executions += 1;
    if got != base {
        let what = match (got, base) {
            (Obs::Ok(_), Obs::Err { .. }) => "accepted-what-ctor-rejects",
            (Obs::Err { .. }, Obs::Ok(_)) => "rejected-what-ctor-accepts",
            (Obs::Ok(_), Obs::Ok(_)) => "different-stored-value",
            (Obs::Err { .. }, Obs::Err { .. }) => "different-error",
            (Obs::Panic(_), _) => "panic",
            _ => "differs",
        };
        rep.violate(&format!("{via}:{what}"), raw.show(), got.show(), base.show(), String::new());
    }
    match got {
        Obs::Ok(_) => rep.class(&format!("{via}:ok")),
        Obs::Err { .. } => rep.class(&format!("{via}:err")),
        Obs::Panic(_) => {}
    }
    rep.bump(via);
}

pub fn run(s: &dyn Subject, ctx: &Ctx) -> Option<DeclReport> {
    let spec = s.spec();
    if !spec.has_tag("C03") {
        return None;
    }
    let mut rep = DeclReport::new("C03", spec);
    let dom = domain(spec, ctx.tier, ctx.seed);
    for raw in &dom {
        if let Some(only) = &ctx.only_input {
            if raw.show() != *only {
                continue;
            }
        }
        let base = s.ctor(raw);
        if let Some(o) = s.try_from_inner(raw) {
            cmp(&mut rep, "TryFrom<Inner>", raw, &o, &base);
        }
        if let Some(o) = s.from_inner(raw) {
            cmp(&mut rep, "From<Inner>", raw, &o, &base);
        }
        if let Value::Str(st) = raw {
            if let Some(o) = s.try_from_str(st) {
                cmp(&mut rep, "TryFrom<&str>", raw, &o, &base);
            }
            if let Some(o) = s.from_str_ref(st) {
                cmp(&mut rep, "From<&str>", raw, &o, &base);
            }
            if let Some(o) = s.parse_string(st) {
                cmp(&mut rep, "FromStr(String)", raw, &o, &base);
            }
        }
        if rep.samples.is_empty() && base.is_ok() {
            rep.sample(format!("{} :: conversions({}) all == {}", spec.src.replace('\n', " "), raw.show(), base.show()));
        }
    }
    // impure default expression: the k-th call must behave like the constructor on the k-th value
    if let Some(seq) = spec.tag_value("default_seq") {
        for (k, txt) in seq.split(',').enumerate() {
            let Ok(n) = txt.parse::<i128>() else { continue };
            let draw = Value::I(n);
            let Some(obs) = s.default() else { break };
            let base = s.ctor(&draw);
            rep.executions += 1;
            let ok = match (&obs, &base) {
                (Obs::Ok(a), Obs::Ok(b)) => a == b,
                (Obs::Panic(_), Obs::Err { .. }) => true,
                _ => false,
            };
            if !ok {
                rep.violate("Default:later-call-differs-from-constructor", format!("<default call #{}>", k + 1), obs.show(), base.show(), format!("default expression evaluated to {}", draw.show()));
            }
            rep.class(if obs.is_ok() { "default-seq:returns" } else { "default-seq:panics" });
        }
    } else if ctx.only_input.is_none() || ctx.only_input.as_deref() == Some("<default>") {
        if let (Some(obs), Some(draw)) = (s.default(), spec.default.as_ref()) {
            let base = s.ctor(draw);
            rep.executions += 1;
            match (&obs, &base) {
                (Obs::Ok(a), Obs::Ok(b)) if a == b => {
                    rep.class("default:returns");
                    rep.guard("default_returns");
                }
                (Obs::Panic(_), Obs::Err { .. }) => {
                    rep.class("default:panics");
                    rep.guard("default_panics");
                }
                (Obs::Ok(_), Obs::Err { .. }) => rep.violate("Default:returns-value-ctor-rejects", "<default>".into(), obs.show(), base.show(), format!("default expr value {}", draw.show())),
                (Obs::Panic(m), Obs::Ok(_)) => rep.violate("Default:panics-on-valid-default", "<default>".into(), obs.show(), base.show(), m.clone()),
                (Obs::Ok(_), Obs::Ok(_)) => rep.violate("Default:different-stored-value", "<default>".into(), obs.show(), base.show(), String::new()),
                _ => rep.violate("Default:differs", "<default>".into(), obs.show(), base.show(), String::new()),
            }
            rep.sample(format!("{} :: default() -> {} ; ctor(default expr) -> {}", spec.src.replace('\n', " "), obs.show(), base.show()));
        }
    }
    if rep.executions == 0 {
        return None;
    }
    Some(rep)
}
