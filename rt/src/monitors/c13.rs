//! C13 — views and comparison traits are transparent to the inner value.
use super::Ctx;
use crate::domain::domain;
use crate::prng::Rng;
use crate::report::DeclReport;
use crate::subject::{CmpObs, Obs, Subject};
use crate::value::Value;

fn check_views(s: &dyn Subject, raw: &Value, rep: &mut DeclReport) {
    let v = match crate::subject::guarded(|| s.views(raw)) {
        Ok(Some(v)) => v,
        Ok(None) => return,
        Err(p) => {
            rep.violate("view-panics", raw.show(), format!("PANIC({p})"), "the inner value's view".into(), String::new());
            return;
        }
    };
    check_views_obs(v, raw, rep, "")
}

fn check_views_obs(v: crate::subject::Views, raw: &Value, rep: &mut DeclReport, how: &str) {
    let Some(stored) = v.stored.clone() else { return };
    if !how.is_empty() && stored != *raw {
        rep.violate("new_unchecked-stores-a-different-value", raw.show(), stored.show(), raw.show(), String::new());
    }
    let mut one = |name: &str, got: &Option<Value>| {
        if let Some(g) = got {
            rep.executions += 1;
            rep.bump(name);
            rep.class(name);
            if *g != stored {
                rep.violate(&format!("view-differs:{name}"), raw.show(), g.show(), stored.show(), String::new());
            }
        }
    };
    one("AsRef", &v.as_ref);
    one("Deref", &v.deref);
    one("Borrow", &v.borrow);
    one("Borrow<str>", &v.borrow_str);
    one("Into", &v.into);
    one("Clone", &v.clone);
    one("Copy", &v.copy);
    if let Some(d) = &v.display {
        rep.executions += 1;
        rep.bump("Display");
        rep.class("Display");
        if *d != v.display_inner {
            rep.violate("view-differs:Display", raw.show(), format!("{:?}", d), format!("{:?}", v.display_inner), String::new());
        }
    }
    if let Some(it) = &v.into_iter {
        rep.executions += 1;
        rep.class("IntoIterator");
        if *it != v.inner_iter {
            rep.violate("view-differs:IntoIterator(by value)", raw.show(), format!("{:?}", it), format!("{:?}", v.inner_iter), String::new());
        }
    }
    if let Some(it) = &v.ref_iter {
        rep.executions += 1;
        rep.class("IntoIterator(&)");
        if *it != v.inner_iter {
            rep.violate("view-differs:IntoIterator(by ref)", raw.show(), format!("{:?}", it), format!("{:?}", v.inner_iter), String::new());
        }
    }
    if let Some(f) = v.hashmap_lookup {
        rep.executions += 1;
        rep.class("HashMap-lookup-by-borrowed");
        if !f {
            rep.violate("hashmap-lookup-by-borrowed-form-misses", raw.show(), "None".into(), "Some".into(), String::new());
        }
    }
    if let Some(f) = v.btreemap_lookup {
        rep.executions += 1;
        rep.class("BTreeMap-lookup-by-borrowed");
        if !f {
            rep.violate("btreemap-lookup-by-borrowed-form-misses", raw.show(), "None".into(), "Some".into(), String::new());
        }
    }
}

pub fn check_cmp(o: &CmpObs, a: &Value, b: &Value, rep: &mut DeclReport) {
    let input = format!("({}, {})", a.show(), b.show());
    if let (Some(x), Some(y)) = (&o.outer.eq, &o.inner.eq) {
        rep.executions += 1;
        rep.class(if x.0 { "eq:equal" } else { "eq:unequal" });
        if x != y {
            rep.violate("cmp-differs:PartialEq", input.clone(), format!("{:?}", x), format!("{:?}", y), String::new());
        }
    }
    if let (Some(x), Some(y)) = (&o.outer.eq_same, &o.inner.eq_same) {
        rep.executions += 1;
        if x != y {
            rep.violate("cmp-differs:PartialEq(same object)", a.show(), format!("{:?}", x), format!("{:?}", y), String::new());
        }
    }
    if let (Some(x), Some(y)) = (&o.outer.pord, &o.inner.pord) {
        rep.executions += 1;
        rep.class(&format!("partial_cmp:{:?}", x.0));
        if x != y {
            rep.violate("cmp-differs:PartialOrd", input.clone(), format!("{:?}", x), format!("{:?}", y), String::new());
        }
    }
    if let Some(x) = &o.outer.ord {
        rep.executions += 1;
        let expect = match (&o.inner.ord, &o.inner.pord) {
            (Some(Ok(y)), _) => Some(*y),
            (_, Some(p)) => p.0,
            _ => None,
        };
        match (x, expect) {
            (Ok(got), Some(e)) if *got == e => rep.class(&format!("cmp:{:?}", got)),
            (Ok(got), Some(e)) => rep.violate("cmp-differs:Ord", input.clone(), format!("{:?}", got), format!("{:?}", e), String::new()),
            (Err(p), _) => rep.violate("cmp-panics", input.clone(), format!("PANIC({p})"), format!("{:?}", expect), String::new()),
            (Ok(_), None) => {}
        }
    }
    if let Some((got, want)) = &o.clone_from {
        rep.executions += 1;
        rep.class("clone_from");
        if got != want {
            rep.violate("view-differs:Clone::clone_from", input.clone(), got.show(), want.show(), String::new());
        }
    }
    if let Some(h) = o.outer.hash_a {
        rep.executions += 1;
        rep.class("hash");
        if let Some(hi) = o.inner.hash_a {
            if h != hi {
                rep.violate("hash-differs-from-inner", a.show(), format!("{h:x}"), format!("{hi:x}"), String::new());
            }
        }
        if let Some(hb) = o.hash_borrowed_a {
            if h != hb {
                rep.violate("hash-differs-from-borrowed-form", a.show(), format!("{h:x}"), format!("{hb:x}"), String::new());
            }
        }
    }
}

pub fn run(s: &dyn Subject, ctx: &Ctx) -> Option<DeclReport> {
    let spec = s.spec();
    if !spec.has_tag("C13") {
        return None;
    }
    let mut rep = DeclReport::new("C13", spec);
    let dom = domain(spec, ctx.tier, ctx.seed);
    let mut valid: Vec<Value> = Vec::new();
    let mut by_stored: std::collections::BTreeMap<Value, Vec<Value>> = Default::default();
    for raw in &dom {
        if let Obs::Ok(v) = s.ctor(raw) {
            valid.push(raw.clone());
            let e = by_stored.entry(v).or_default();
            if e.len() < 3 {
                e.push(raw.clone());
            }
        }
    }
    let only = ctx.only_input.clone();
    for raw in &valid {
        if let Some(o) = &only {
            if raw.show() != *o && !o.starts_with('(') {
                continue;
            }
        }
        if only.as_deref().map(|o| o.starts_with('(')).unwrap_or(false) {
            break;
        }
        check_views(s, raw, &mut rep);
    }
    // pairs: equal, adjacent (sorted domain), equal only after sanitisation, extremes, random
    let mut pairs: Vec<(Value, Value)> = Vec::new();
    for i in 0..valid.len() {
        pairs.push((valid[i].clone(), valid[i].clone()));
        if i + 1 < valid.len() {
            pairs.push((valid[i].clone(), valid[i + 1].clone()));
            pairs.push((valid[i + 1].clone(), valid[i].clone()));
        }
    }
    let mut n_san_equal = 0u64;
    for raws in by_stored.values() {
        if raws.len() >= 2 {
            pairs.push((raws[0].clone(), raws[1].clone()));
            n_san_equal += 1;
        }
    }
    rep.guard_add("pairs_equal_only_after_sanitisation", n_san_equal);
    if !valid.is_empty() {
        pairs.push((valid[0].clone(), valid[valid.len() - 1].clone()));
        let mut rng = Rng::new(ctx.seed ^ 0xC13).derive(&spec.id);
        let n = if ctx.tier == crate::domain::Tier::Quick { 2000 } else { 50_000 };
        for _ in 0..n {
            let a = rng.pick(&valid).clone();
            let b = rng.pick(&valid).clone();
            pairs.push((a, b));
        }
    }
    for (a, b) in &pairs {
        if let Some(o) = &only {
            if format!("({}, {})", a.show(), b.show()) != *o && a.show() != *o {
                continue;
            }
        }
        match crate::subject::guarded(|| s.cmp2(a, b)) {
            Ok(Some(o)) => check_cmp(&o, a, b, &mut rep),
            Ok(None) => break,
            Err(p) => rep.violate("comparison-panics", format!("({}, {})", a.show(), b.show()), format!("PANIC({p})"), "what the inner values answer".into(), String::new()),
        }
    }
    // declarations carrying `new_unchecked`: whatever was stored through it (valid or not) is exposed and compared transparently
    // (Ord::cmp is left out: a total order is only promised for values the guards admit)
    if only.is_none() {
        let mut n = 0u64;
        for raw in &dom {
            match crate::subject::guarded(|| s.views_unchecked(raw)) {
                Ok(Some(v)) => {
                    check_views_obs(v, raw, &mut rep, "unchecked");
                    n += 1;
                }
                Ok(None) => break,
                Err(p) => rep.violate("view-panics(unchecked value)", raw.show(), format!("PANIC({p})"), "the inner value's view".into(), String::new()),
            }
        }
        if n > 0 {
            let mut rng = Rng::new(ctx.seed ^ 0xC13A).derive(&spec.id);
            let mut upairs: Vec<(Value, Value)> = Vec::new();
            for i in 0..dom.len() {
                upairs.push((dom[i].clone(), dom[i].clone()));
                if i + 1 < dom.len() {
                    upairs.push((dom[i].clone(), dom[i + 1].clone()));
                    upairs.push((dom[i + 1].clone(), dom[i].clone()));
                }
            }
            for _ in 0..2000 {
                upairs.push((rng.pick(&dom).clone(), rng.pick(&dom).clone()));
            }
            for (a, b) in &upairs {
                match crate::subject::guarded(|| s.cmp2_unchecked(a, b)) {
                    Ok(Some(o)) => {
                        check_cmp(&o, a, b, &mut rep);
                        rep.guard("unchecked_pairs_compared");
                    }
                    Ok(None) => break,
                    Err(p) => rep.violate("comparison-panics(unchecked value)", format!("({}, {})", a.show(), b.show()), format!("PANIC({p})"), "what the inner values answer".into(), String::new()),
                }
            }
            rep.guard_add("unchecked_values_viewed", n);
        }
    }
    if let Some(r) = valid.first() {
        rep.sample(format!("{} :: views/cmp of value built from {} agree with the inner value ({} valid raws, {} pairs)", spec.src.replace('\n', " "), r.show(), valid.len(), pairs.len()));
    }
    if rep.executions == 0 {
        return None;
    }
    Some(rep)
}
