//! C10 — serialization is transparent; valid values survive a serde round trip.
use super::c04::doc_raws;
use super::Ctx;
use crate::report::DeclReport;
use crate::subject::{Fmt, Obs, Subject, FMTS};

pub fn run(s: &dyn Subject, ctx: &Ctx) -> Option<DeclReport> {
    let spec = s.spec();
    if !spec.has_tag("C10") {
        return None;
    }
    let mut rep = DeclReport::new("C10", spec);
    let raws = doc_raws(spec, ctx);
    for raw in &raws {
        if let Some(only) = &ctx.only_input {
            if raw.show() != *only {
                continue;
            }
        }
        let v = match s.ctor(raw) {
            Obs::Ok(v) => v,
            _ => continue,
        };
        // (1) recording serializer: [newtype_struct(T)] ++ trace(inner)
        if let Some((tt, ti)) = s.ser_trace(raw) {
            rep.executions += 1;
            let mut want = vec![format!("newtype_struct({})", spec.type_name)];
            want.extend(ti.iter().cloned());
            if tt != want {
                rep.violate("serializer-call-trace-not-newtype-struct-around-inner", raw.show(), format!("{:?}", tt), format!("{:?}", want), String::new());
            }
            rep.class("trace");
        }
        for f in FMTS {
            let Some(o) = s.ser(f, raw) else { continue };
            rep.executions += 1;
            let bt = o.bytes_t.clone().unwrap();
            let bi = o.bytes_inner.clone().unwrap();
            let br = o.bytes_ref.clone().unwrap();
            let show = |b: &Result<Vec<u8>, String>| match b {
                Ok(x) => match f {
                    Fmt::MsgPack => x.iter().map(|c| format!("{:02x}", c)).collect::<String>(),
                    _ => String::from_utf8_lossy(x).to_string(),
                },
                Err(e) => format!("Err({e})"),
            };
            // (2) byte identity
            match f {
                Fmt::Json | Fmt::MsgPack => {
                    if bt != bi {
                        rep.violate(&format!("{:?}:bytes-differ-from-inner-encoding", f), raw.show(), show(&bt), show(&bi), String::new());
                    }
                }
                Fmt::Ron => {}
            }
            if bt != br {
                rep.violate(&format!("{:?}:bytes-differ-from-serde-derived-newtype", f), raw.show(), show(&bt), show(&br), String::new());
            }
            // (3) round trip, conditioned on the inner value round-tripping in this format
            match (&o.inner_roundtrip, &o.t_roundtrip) {
                (Some(Ok(back)), Some(t)) if *back == v => {
                    rep.guard(&format!("{:?}:roundtrip-checked", f));
                    rep.class(&format!("{:?}:roundtrip", f));
                    match t {
                        Ok(w) if *w == v => {}
                        Ok(w) => rep.violate(&format!("{:?}:roundtrip-changes-value", f), raw.show(), w.show(), v.show(), show(&bt)),
                        Err(e) => rep.violate(&format!("{:?}:roundtrip-fails", f), raw.show(), format!("Err({e})"), v.show(), show(&bt)),
                    }
                }
                (Some(_), _) => {
                    rep.guard(&format!("{:?}:inner-does-not-roundtrip(skipped)", f));
                    rep.class(&format!("{:?}:precondition-skip", f));
                }
                _ => {}
            }
            // RON written with struct names must read back (the name handed to the serializer and the one expected by the deserializer agree)
            if let Some((a, b, back)) = &o.ron_named {
                rep.executions += 1;
                if a != b {
                    rep.violate("Ron(struct_names):text-differs-from-serde-derived-newtype", raw.show(), format!("{:?}", a), format!("{:?}", b), String::new());
                }
                if let (Some(Ok(inner_back)), Some(r)) = (&o.inner_roundtrip, back) {
                    if *inner_back == v {
                        rep.class("Ron(struct_names):roundtrip");
                        match r {
                            Ok(w) if *w == v => {}
                            other => rep.violate("Ron(struct_names):roundtrip-fails", raw.show(), format!("{:?}", other), v.show(), format!("{:?}", a)),
                        }
                    }
                }
            }
            // the same in container positions
            for (p, nbt, nbi, nbr, back, inner_back) in &o.nested {
                rep.executions += 1;
                if matches!(f, Fmt::Json | Fmt::MsgPack) && nbt != nbi {
                    rep.violate(&format!("{:?}:nested-bytes-differ-from-inner-encoding", f), format!("{:?}@{}", p, raw.show()), show(nbt), show(nbi), String::new());
                }
                if nbt != nbr {
                    rep.violate(&format!("{:?}:nested-bytes-differ-from-serde-derived-newtype", f), format!("{:?}@{}", p, raw.show()), show(nbt), show(nbr), String::new());
                }
                // precondition: the inner value round-trips in this format *in this position* (e.g. Some(None) does not in JSON)
                if let (Some(Ok(ib)), Some(b)) = (inner_back, back) {
                    if !ib.is_empty() && ib.iter().all(|x| *x == v) {
                        rep.class(&format!("{:?}:{:?}:roundtrip", f, p));
                        match b {
                            crate::subject::DeObs::Ok(vals) if !vals.is_empty() && vals.iter().all(|x| *x == v) => {}
                            other => rep.violate(&format!("{:?}:nested-roundtrip-fails", f), format!("{:?}@{}", p, raw.show()), format!("{:?}", other), v.show(), show(nbt)),
                        }
                    }
                }
            }
            if rep.samples.len() < 2 && rep.executions % 53 == 0 {
                rep.sample(format!("{} :: {:?} of value {} = {} (inner: {})", spec.src.replace('\n', " "), f, v.show(), show(&bt), show(&bi)));
            }
        }
        if !v.is_finite_float() && v.is_float() {
            rep.guard("nonfinite_value");
        }
        if let crate::value::Value::Str(st) = &v {
            if !st.is_ascii() {
                rep.guard("non_ascii_string");
            }
            if st.contains('"') || st.contains('\\') || st.contains('\n') {
                rep.guard("escaped_string");
            }
        }
        if let Some(x) = v.as_f64() {
            if x == 0.0 && x.is_sign_negative() {
                rep.guard("negative_zero");
            }
            if x != 0.0 && x.abs() < 1e-38 && x.is_finite() {
                rep.guard("subnormal_or_tiny");
            }
        }
    }
    if rep.executions == 0 {
        return None;
    }
    Some(rep)
}
