//! nvrt — runtime monitors and reference oracle for the nutype verification harness.
pub mod domain;
pub mod monitors;
pub mod oracle;
pub mod prng;
pub mod report;
pub mod runner;
pub mod spec;
pub mod subject;
pub mod value;

pub use spec::*;
pub use subject::*;
pub use value::*;
pub mod serde_mon;
