//! Entry point of every generated monitor binary.
use crate::domain::Tier;
use crate::monitors::{monitor_for, Ctx};
use crate::oracle::Oracle;
use crate::subject::Subject;
use std::io::Write;

fn arg(args: &[String], key: &str) -> Option<String> {
    args.iter().position(|a| a == key).and_then(|i| args.get(i + 1).cloned())
}

pub fn main(subjects: Vec<Box<dyn Subject>>) {
    let args: Vec<String> = std::env::args().collect();
    let property = arg(&args, "--property").expect("--property");
    let out = arg(&args, "--out").expect("--out");
    let tier = match arg(&args, "--tier").as_deref() {
        Some("thorough") => Tier::Thorough,
        _ => Tier::Quick,
    };
    let seed: u64 = arg(&args, "--seed").and_then(|s| s.parse().ok()).unwrap_or(0);
    let (part, parts): (usize, usize) = arg(&args, "--part")
        .map(|s| {
            let (a, b) = s.split_once('/').expect("--part i/n");
            (a.parse().unwrap(), b.parse().unwrap())
        })
        .unwrap_or((0, 1));
    let only = arg(&args, "--only");
    let only_input = arg(&args, "--input");
    let heartbeat = arg(&args, "--heartbeat");
    if let Some(n) = arg(&args, "--expect-subjects").and_then(|s| s.parse::<usize>().ok()) {
        if n != subjects.len() {
            eprintln!("nvrt: this binary holds {} declarations but the driver built {} (stale or foreign runner binary)", subjects.len(), n);
            std::process::exit(4);
        }
    }
    crate::subject::install_panic_hook();
    let ctx = Ctx { tier, seed, oracle: Oracle::new(), only_input, heartbeat, part, parts, sweep_slice_only: std::cell::Cell::new(false) };
    if property == "C09" {
        // stall watchdog: bounded-progress restatement of "terminates"
        let out2 = format!("{out}.stall");
        std::thread::spawn(move || {
            use std::sync::atomic::Ordering;
            let mut last = u64::MAX;
            let mut same = 0u32;
            loop {
                std::thread::sleep(std::time::Duration::from_secs(1));
                let cur = crate::monitors::c09::PROGRESS.load(Ordering::Relaxed);
                if cur == last {
                    same += 1;
                } else {
                    same = 0;
                    last = cur;
                }
                if same >= 10 {
                    let decl = crate::monitors::c09::CURRENT_DECL.lock().map(|g| g.clone()).unwrap_or_default();
                    let input = crate::monitors::c09::CURRENT_INPUT.lock().map(|g| crate::monitors::c09::hex(&g)).unwrap_or_default();
                    let _ = std::fs::write(&out2, format!("{decl} {input}\n"));
                    std::process::exit(3);
                }
            }
        });
    }
    let mon = monitor_for(&property).unwrap_or_else(|| panic!("unknown property {property}"));
    let mut f = std::io::BufWriter::new(std::fs::File::create(&out).expect("create out"));
    // twin groups must land in the same part: partition by group key
    let mut n = 0usize;
    for (i, s) in subjects.iter().enumerate() {
        if let Some(o) = &only {
            if s.spec().id != *o {
                continue;
            }
        } else if i % parts != part {
            if tier == Tier::Thorough && s.spec().has_tag("sweep32") {
                ctx.sweep_slice_only.set(true);
                if let Some(rep) = mon(s.as_ref(), &ctx) {
                    serde_json::to_writer(&mut f, &rep).unwrap();
                    f.write_all(b"\n").unwrap();
                }
                ctx.sweep_slice_only.set(false);
            }
            continue;
        }
        if let Some(rep) = mon(s.as_ref(), &ctx) {
            serde_json::to_writer(&mut f, &rep).unwrap();
            f.write_all(b"\n").unwrap();
            n += 1;
        }
    }
    // cross-declaration monitors (twins) get the whole list
    if part == 0 || only.is_some() {
        for rep in crate::monitors::cross(&property, &subjects, &ctx, only.as_deref()) {
            serde_json::to_writer(&mut f, &rep).unwrap();
            f.write_all(b"\n").unwrap();
            n += 1;
        }
    }
    f.flush().unwrap();
    eprintln!("nvrt: property={property} part={part}/{parts} reports={n}");
}
