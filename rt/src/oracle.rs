//! Reference interpreter: sanitize left to right, then the first violated
//! validator in declared order. Three-valued on NaN-vs-bound (DESIGN §3).
use crate::spec::*;
use crate::value::Value;
use std::cmp::Ordering;

/// White_Space trim implemented with an explicit scalar loop (not `str::trim`).
pub fn ref_trim(s: &str) -> String {
    let chars: Vec<char> = s.chars().collect();
    let mut a = 0usize;
    let mut b = chars.len();
    while a < b && chars[a].is_whitespace() {
        a += 1;
    }
    while b > a && chars[b - 1].is_whitespace() {
        b -= 1;
    }
    chars[a..b].iter().collect()
}

/// scalar count, counted on UTF-8 lead bytes
pub fn scalar_count(s: &str) -> u128 {
    s.as_bytes().iter().filter(|b| (**b & 0xC0) != 0x80).count() as u128
}

pub fn sanitize(spec: &Spec, raw: &Value) -> Value {
    let mut v = raw.clone();
    for s in &spec.sans {
        v = match s {
            San::Trim => Value::Str(ref_trim(v.as_str().expect("trim on non-string"))),
            San::Lower => Value::Str(v.as_str().expect("lowercase on non-string").to_lowercase()),
            San::Upper => Value::Str(v.as_str().expect("uppercase on non-string").to_uppercase()),
            San::With(f) => f(&v),
        };
    }
    v
}

/// compare two values of the same numeric family; None if either is NaN
pub fn num_cmp(a: &Value, b: &Value) -> Option<Ordering> {
    match (a, b) {
        (Value::I(x), Value::I(y)) => Some(x.cmp(y)),
        (Value::U(x), Value::U(y)) => Some(x.cmp(y)),
        (Value::I(x), Value::U(y)) => Some(if *x < 0 { Ordering::Less } else { (*x as u128).cmp(y) }),
        (Value::U(x), Value::I(y)) => Some(if *y < 0 { Ordering::Greater } else { x.cmp(&(*y as u128)) }),
        (Value::F32(x), Value::F32(y)) => f32::from_bits(*x).partial_cmp(&f32::from_bits(*y)),
        (Value::F64(x), Value::F64(y)) => f64::from_bits(*x).partial_cmp(&f64::from_bits(*y)),
        _ => panic!("num_cmp on mixed kinds {:?} {:?}", a, b),
    }
}

#[derive(Clone, Copy, Debug, PartialEq, Eq)]
pub enum Tri {
    Violated,
    Satisfied,
    /// NaN against a bound: the documentation does not settle it
    Unsettled,
}

pub fn eval_validator(val: &Val, v: &Value, regex: &dyn Fn(&str, &str) -> bool) -> Tri {
    let b2t = |violated: bool| if violated { Tri::Violated } else { Tri::Satisfied };
    match val {
        Val::LenMin(n) => b2t(scalar_count(v.as_str().unwrap()) < *n),
        Val::LenMax(n) => b2t(scalar_count(v.as_str().unwrap()) > *n),
        Val::NotEmpty => b2t(v.as_str().unwrap().as_bytes().is_empty()),
        Val::Regex(p) => b2t(!regex(p, v.as_str().unwrap())),
        Val::Pred(f) => b2t(!f(v)),
        Val::Finite => b2t(!v.is_finite_float()),
        Val::Less(b) | Val::LessEq(b) | Val::Greater(b) | Val::GreaterEq(b) => {
            if v.is_nan() || b.is_nan() {
                return Tri::Unsettled;
            }
            let o = num_cmp(v, b).unwrap();
            match val {
                Val::Less(_) => b2t(o != Ordering::Less),
                Val::LessEq(_) => b2t(o == Ordering::Greater),
                Val::Greater(_) => b2t(o != Ordering::Greater),
                Val::GreaterEq(_) => b2t(o == Ordering::Less),
                _ => unreachable!(),
            }
        }
    }
}

#[derive(Clone, Debug, PartialEq, Eq)]
pub enum Outcome {
    Accept,
    /// index into spec.vals and the variant name
    Reject(usize),
    /// custom validator rejected, carrying Debug rendering of the user's error
    RejectCustom(String),
}

#[derive(Clone, Debug)]
pub struct Expect {
    pub sanitized: Value,
    /// all outcomes the documentation allows (exactly one except for NaN-vs-bound)
    pub allowed: Vec<Outcome>,
    /// number of validators decisively violated (for C07 non-triviality)
    pub n_violated: usize,
    /// index of first decisively violated validator
    pub first_violated: Option<usize>,
}

impl Expect {
    pub fn exact(&self) -> Option<&Outcome> {
        if self.allowed.len() == 1 { self.allowed.first() } else { None }
    }
    pub fn accepts(&self) -> bool {
        self.allowed.iter().any(|o| *o == Outcome::Accept)
    }
    pub fn must_accept(&self) -> bool {
        self.allowed.len() == 1 && self.allowed[0] == Outcome::Accept
    }
    pub fn must_reject(&self) -> bool {
        !self.accepts()
    }
}

pub struct Oracle {
    cache: std::cell::RefCell<std::collections::HashMap<String, regex::Regex>>,
}

impl Default for Oracle {
    fn default() -> Self {
        Self::new()
    }
}

impl Oracle {
    pub fn new() -> Self {
        Oracle {
            cache: Default::default(),
        }
    }
    fn regex_match(&self, pat: &str, s: &str) -> bool {
        let mut c = self.cache.borrow_mut();
        let re = c.entry(pat.to_string()).or_insert_with(|| regex::Regex::new(pat).expect("oracle: bad regex"));
        re.is_match(s)
    }

    /// validate an already sanitized value
    pub fn validate(&self, spec: &Spec, v: &Value) -> (Vec<Outcome>, usize, Option<usize>) {
        if let (Some(f), true) = (spec.custom, spec.vals.is_empty()) {
            return match f(v) {
                Ok(()) => (vec![Outcome::Accept], 0, None),
                Err(e) => (vec![Outcome::RejectCustom(e)], 1, Some(0)),
            };
        }
        // a declaration that writes built-in validators *and* a custom one (normally refused): every written rule counts;
        // `custom_first` says the custom validator was written before the built-in ones
        if let Some(f) = spec.custom {
            if spec.has_tag("custom_first") {
                if let Err(e) = f(v) {
                    return (vec![Outcome::RejectCustom(e)], 1, Some(0));
                }
            }
        }
        let rx = |p: &str, s: &str| self.regex_match(p, s);
        let mut allowed = Vec::new();
        let mut n_violated = 0usize;
        let mut first = None;
        let mut open = true; // no decisive violation seen yet
        for (i, val) in spec.vals.iter().enumerate() {
            match eval_validator(val, v, &rx) {
                Tri::Satisfied => {}
                Tri::Unsettled => {
                    if open {
                        allowed.push(Outcome::Reject(i));
                    }
                }
                Tri::Violated => {
                    n_violated += 1;
                    if open {
                        allowed.push(Outcome::Reject(i));
                        first = Some(i);
                        open = false;
                    }
                }
            }
        }
        if open {
            if let (Some(f), false) = (spec.custom, spec.has_tag("custom_first")) {
                if let Err(e) = f(v) {
                    return (vec![Outcome::RejectCustom(e)], n_violated + 1, Some(spec.vals.len()));
                }
            }
            allowed.push(Outcome::Accept);
        }
        (allowed, n_violated, first)
    }

    pub fn ctor(&self, spec: &Spec, raw: &Value) -> Expect {
        let sanitized = sanitize(spec, raw);
        let (allowed, n_violated, first_violated) = self.validate(spec, &sanitized);
        Expect { sanitized, allowed, n_violated, first_violated }
    }
}
