//! Input domains (DESIGN §4): exhaustive cores, boundary sets, seeded random tails.
use crate::prng::Rng;
use crate::spec::*;
use crate::value::Value;

#[derive(Clone, Copy, Debug, PartialEq, Eq)]
pub enum Tier {
    Quick,
    Thorough,
}

/// Hostile alphabet A (DESIGN §4)
pub const ALPHABET: [char; 17] = [
    ' ', '\t', '\n', '\r', '\u{00A0}', '\u{2003}', '\u{200B}', 'a', 'A', 'ß', 'İ', 'ﬁ', 'ΐ', 'Σ', 'ς', '\u{0301}', '𝒳',
];

/// 40-char case/space set for pair enumeration (thorough)
pub const CASE_SPACE_SET: [char; 40] = [
    ' ', '\t', '\n', '\u{000B}', '\u{000C}', '\r', '\u{0085}', '\u{00A0}', '\u{1680}', '\u{2000}', '\u{2003}', '\u{2028}',
    '\u{2029}', '\u{202F}', '\u{205F}', '\u{3000}', '\u{200B}', '\u{FEFF}', 'a', 'A', 'z', 'Z', 'ß', 'ẞ', 'İ', 'ı', 'i', 'I',
    'ﬁ', 'ΐ', 'Σ', 'σ', 'ς', '\u{0301}', '\u{0307}', 'ǅ', 'ŉ', 'ǰ', '𝒳', '\u{1F88}',
];

fn clamp_int(fam: &Fam, v: i128) -> Option<Value> {
    // returns None when v is outside the type's range
    let (mn, mx) = (fam.int_min(), fam.int_max());
    let val = Value::I(v);
    use crate::oracle::num_cmp;
    use std::cmp::Ordering::*;
    if num_cmp(&val, &mn).unwrap() == Less || num_cmp(&val, &mx).unwrap() == Greater {
        None
    } else if fam.is_u128() {
        Some(Value::U(v as u128))
    } else {
        Some(val)
    }
}

fn neighbours_int(fam: &Fam, b: &Value, out: &mut Vec<Value>) {
    match b {
        Value::I(x) => {
            for d in -2i128..=2 {
                if let Some(y) = x.checked_add(d) {
                    if let Some(v) = clamp_int(fam, y) {
                        out.push(v);
                    }
                }
            }
        }
        Value::U(x) => {
            for d in -2i128..=2 {
                let y = if d < 0 { x.checked_sub((-d) as u128) } else { x.checked_add(d as u128) };
                if let Some(y) = y {
                    out.push(Value::U(y));
                }
            }
        }
        _ => {}
    }
}

pub fn int_domain(spec: &Spec, tier: Tier, rng: &mut Rng) -> Vec<Value> {
    let fam = spec.fam;
    let bits = fam.int_bits() as u32;
    let signed = matches!(fam, Fam::Int { signed: true, .. });
    let mut out = Vec::new();
    if bits <= 16 {
        let (lo, hi) = if signed { (-(1i128 << (bits - 1)), (1i128 << (bits - 1)) - 1) } else { (0, (1i128 << bits) - 1) };
        let mut v = lo;
        while v <= hi {
            out.push(Value::I(v));
            v += 1;
        }
        return out;
    }
    // boundary set
    let mn = fam.int_min();
    let mx = fam.int_max();
    neighbours_int(&fam, &mn, &mut out);
    neighbours_int(&fam, &mx, &mut out);
    for v in [-2i128, -1, 0, 1, 2] {
        if let Some(x) = clamp_int(&fam, v) {
            out.push(x);
        }
    }
    for val in &spec.vals {
        if let Some(b) = val.bound() {
            neighbours_int(&fam, b, &mut out);
            // inputs that separate the written bound from plausible mis-readings (sign dropped, off by the literal part)
            match b {
                Value::I(x) => {
                    if let Some(n) = x.checked_neg() {
                        neighbours_int(&fam, &Value::I(n), &mut out);
                    }
                    for m in [x / 2, x.saturating_mul(2), x.saturating_add(10), x.saturating_sub(10)] {
                        if let Some(v) = clamp_int(&fam, m) {
                            out.push(v);
                        }
                    }
                }
                Value::U(x) => {
                    out.push(Value::U(x / 2));
                    out.push(Value::U(x.saturating_mul(2)));
                }
                _ => {}
            }
        }
    }
    if let Some(d) = &spec.default {
        neighbours_int(&fam, d, &mut out);
    }
    for p in 1..bits.min(127) {
        let x = 1i128 << p;
        for d in [-1i128, 0, 1] {
            if let Some(v) = clamp_int(&fam, x + d) {
                out.push(v);
            }
            if signed {
                if let Some(v) = clamp_int(&fam, -(x + d)) {
                    out.push(v);
                }
            }
        }
    }
    if fam.is_u128() {
        for p in [127u32] {
            for d in [-1i128, 0, 1] {
                let x = (1u128 << p).wrapping_add(d as u128);
                out.push(Value::U(x));
            }
        }
    }
    let n = match tier {
        Tier::Quick => 2000,
        Tier::Thorough => 50_000,
    };
    for i in 0..n {
        let raw = rng.next_u128();
        // half of the random tail is concentrated near the bounds / small magnitudes
        let v = if i % 2 == 0 {
            let shift = rng.below(bits as u64) as u32;
            let r = if bits == 128 { raw } else { raw & ((1u128 << bits) - 1) };
            r >> shift
        } else if bits == 128 {
            raw
        } else {
            raw & ((1u128 << bits) - 1)
        };
        let val = if fam.is_u128() {
            Value::U(v)
        } else if signed {
            // reinterpret as two's complement of width `bits`
            let sv = if bits == 128 {
                v as i128
            } else {
                let sh = 128 - bits;
                ((v << sh) as i128) >> sh
            };
            Value::I(sv)
        } else {
            Value::I(v as i128)
        };
        out.push(val);
    }
    out.sort();
    out.dedup();
    out
}

pub fn f32_specials() -> Vec<u32> {
    let mut v: Vec<u32> = vec![
        0x0000_0000, 0x8000_0000, // +-0
        0x0080_0000, 0x8080_0000, // +-MIN_POSITIVE
        0x0000_0001, 0x8000_0001, 0x007F_FFFF, 0x807F_FFFF, // subnormals
        0x7F7F_FFFF, 0xFF7F_FFFF, // +-MAX
        0x7F80_0000, 0xFF80_0000, // +-inf
        0x7FC0_0000, 0xFFC0_0000, 0x7F80_0001, 0xFF80_0001, 0x7FA0_0000, 0x7FFF_FFFF, 0xFFFF_FFFF, // NaNs
        1.0f32.to_bits(), (-1.0f32).to_bits(), 0.1f32.to_bits(), 0.5f32.to_bits(), 1.5f32.to_bits(), (-1.5f32).to_bits(),
        64.0f32.to_bits(), 100.0f32.to_bits(), 16777216.0f32.to_bits(), 16777215.0f32.to_bits(), 16777218.0f32.to_bits(),
        1e30f32.to_bits(), 1e-30f32.to_bits(), (-1e30f32).to_bits(),
    ];
    for b in [64.0f32, 1.0, 0.1] {
        v.push(b.to_bits() + 1);
        v.push(b.to_bits() - 1);
    }
    v
}

pub fn f64_specials() -> Vec<u64> {
    let mut v: Vec<u64> = vec![
        0, 0x8000_0000_0000_0000,
        0x0010_0000_0000_0000, 0x8010_0000_0000_0000,
        1, 0x8000_0000_0000_0001, 0x000F_FFFF_FFFF_FFFF, 0x800F_FFFF_FFFF_FFFF,
        f64::MAX.to_bits(), f64::MIN.to_bits(),
        f64::INFINITY.to_bits(), f64::NEG_INFINITY.to_bits(),
        0x7FF8_0000_0000_0000, 0xFFF8_0000_0000_0000, 0x7FF0_0000_0000_0001, 0xFFF0_0000_0000_0001, 0x7FF4_0000_0000_0000,
        0x7FFF_FFFF_FFFF_FFFF, 0xFFFF_FFFF_FFFF_FFFF,
        1.0f64.to_bits(), (-1.0f64).to_bits(), 0.1f64.to_bits(), 0.5f64.to_bits(), 1.5f64.to_bits(), (-1.5f64).to_bits(),
        64.0f64.to_bits(), 100.0f64.to_bits(), 9007199254740992.0f64.to_bits(), 9007199254740991.0f64.to_bits(),
        9007199254740994.0f64.to_bits(), 1e300f64.to_bits(), 1e-300f64.to_bits(), (-1e300f64).to_bits(),
        16777216.0f64.to_bits(), 16777217.0f64.to_bits(),
    ];
    for b in [64.0f64, 1.0, 0.1] {
        v.push(b.to_bits() + 1);
        v.push(b.to_bits() - 1);
    }
    v
}

fn f32_neigh(bits: u32, out: &mut Vec<Value>) {
    let x = f32::from_bits(bits);
    if x.is_nan() {
        out.push(Value::F32(bits));
        return;
    }
    // walk +-2 steps on the ordered line of floats
    let key = |b: u32| -> i64 { if b & 0x8000_0000 != 0 { -((b & 0x7FFF_FFFF) as i64) - 1 } else { b as i64 } };
    let unkey = |k: i64| -> u32 { if k < 0 { ((-(k + 1)) as u32) | 0x8000_0000 } else { k as u32 } };
    let k = key(bits);
    for d in -2i64..=2 {
        let kk = k + d;
        if kk >= key(0xFF80_0000) && kk <= key(0x7F80_0000) {
            out.push(Value::F32(unkey(kk)));
        }
    }
}

fn f64_neigh(bits: u64, out: &mut Vec<Value>) {
    let x = f64::from_bits(bits);
    if x.is_nan() {
        out.push(Value::F64(bits));
        return;
    }
    let key = |b: u64| -> i128 { if b >> 63 != 0 { -((b & 0x7FFF_FFFF_FFFF_FFFF) as i128) - 1 } else { b as i128 } };
    let unkey = |k: i128| -> u64 { if k < 0 { ((-(k + 1)) as u64) | (1u64 << 63) } else { k as u64 } };
    let k = key(bits);
    for d in -2i128..=2 {
        let kk = k + d;
        if kk >= key(f64::NEG_INFINITY.to_bits()) && kk <= key(f64::INFINITY.to_bits()) {
            out.push(Value::F64(unkey(kk)));
        }
    }
}

pub fn float_domain(spec: &Spec, tier: Tier, rng: &mut Rng) -> Vec<Value> {
    let mut out = Vec::new();
    let n = match tier {
        Tier::Quick => 20_000,
        Tier::Thorough => 1_000_000,
    };
    match spec.fam {
        Fam::F32 => {
            for b in f32_specials() {
                out.push(Value::F32(b));
            }
            for val in &spec.vals {
                if let Some(Value::F32(b)) = val.bound() {
                    f32_neigh(*b, &mut out);
                    f32_neigh(*b ^ 0x8000_0000, &mut out);
                    // values near the bound on a coarser scale
                    let x = f32::from_bits(*b);
                    for d in [-1.0f32, -0.5, 0.5, 1.0] {
                        out.push(Value::f32(x + d));
                    }
                }
            }
            if let Some(Value::F32(b)) = &spec.default {
                f32_neigh(*b, &mut out);
            }
            for i in 0..n {
                let r = rng.next_u64();
                if i % 4 == 0 {
                    // moderate magnitudes: more likely to fall between bounds
                    let x = ((r >> 40) as f32 / (1u32 << 24) as f32 - 0.5) * 400.0;
                    out.push(Value::f32(x));
                } else {
                    out.push(Value::F32(r as u32));
                }
            }
        }
        Fam::F64 => {
            for b in f64_specials() {
                out.push(Value::F64(b));
            }
            for val in &spec.vals {
                if let Some(Value::F64(b)) = val.bound() {
                    f64_neigh(*b, &mut out);
                    f64_neigh(*b ^ (1u64 << 63), &mut out);
                    let x = f64::from_bits(*b);
                    for d in [-1.0f64, -0.5, 0.5, 1.0] {
                        out.push(Value::f64(x + d));
                    }
                }
            }
            if let Some(Value::F64(b)) = &spec.default {
                f64_neigh(*b, &mut out);
            }
            for i in 0..n {
                let r = rng.next_u64();
                if i % 4 == 0 {
                    let x = ((r >> 11) as f64 / (1u64 << 53) as f64 - 0.5) * 400.0;
                    out.push(Value::f64(x));
                } else {
                    out.push(Value::F64(r));
                }
            }
        }
        _ => panic!("float_domain on non-float"),
    }
    out.sort();
    out.dedup();
    out
}

/// all strings of length <= max_len over ALPHABET
pub fn all_strings(max_len: usize) -> Vec<String> {
    let mut out = vec![String::new()];
    let mut frontier = vec![String::new()];
    for _ in 0..max_len {
        let mut next = Vec::with_capacity(frontier.len() * ALPHABET.len());
        for s in &frontier {
            for c in ALPHABET {
                let mut t = s.clone();
                t.push(c);
                next.push(t);
            }
        }
        out.extend(next.iter().cloned());
        frontier = next;
    }
    out
}

pub fn random_string(rng: &mut Rng, max_len: u64) -> String {
    let len = rng.below(max_len + 1);
    let mut s = String::new();
    for _ in 0..len {
        let c = if rng.chance(1, 2) {
            *rng.pick(&ALPHABET)
        } else if rng.chance(1, 2) {
            *rng.pick(&CASE_SPACE_SET)
        } else {
            loop {
                let x = rng.below(0x110000) as u32;
                if let Some(c) = char::from_u32(x) {
                    break c;
                }
            }
        };
        s.push(c);
    }
    s
}

pub fn string_domain(spec: &Spec, tier: Tier, rng: &mut Rng) -> Vec<Value> {
    let l = match tier {
        Tier::Quick => 3,
        Tier::Thorough => 4,
    };
    let mut out: Vec<String> = all_strings(l);
    // boundary lengths in chars and in bytes, with single- and multi-byte fill
    let mut lens: Vec<u128> = vec![];
    for v in &spec.vals {
        match v {
            Val::LenMin(n) | Val::LenMax(n) => lens.push(*n),
            _ => {}
        }
    }
    for n in lens {
        if n > 5000 {
            continue;
        }
        let n = n as usize;
        for m in [n.saturating_sub(1), n, n + 1] {
            for fill in ['a', 'ß', '𝒳', ' '] {
                out.push(std::iter::repeat(fill).take(m).collect());
                // byte length == m (when divisible)
                let w = fill.len_utf8();
                if m % w == 0 {
                    out.push(std::iter::repeat(fill).take(m / w).collect());
                }
                // padded with whitespace on both sides (trim interplay)
                let mut s = String::from(" \u{2003}");
                s.extend(std::iter::repeat(fill).take(m));
                s.push('\t');
                out.push(s);
            }
        }
    }
    // heavily padded inputs: raw length far beyond any length bound, sanitized length within it
    {
        let mut maxes: Vec<usize> = spec.vals.iter().filter_map(|v| if let Val::LenMax(n) = v { Some(*n as usize) } else { None }).collect();
        maxes.push(3);
        for n in maxes {
            if n > 2000 {
                continue;
            }
            for core in ["", "a", "ß", "ab"] {
                for pad in [' ', '\t', '\u{2003}', '\n'] {
                    let padding: String = std::iter::repeat(pad).take(4 * n + 9).collect();
                    out.push(format!("{padding}{core}{padding}"));
                    out.push(format!("{padding}{core}"));
                    out.push(format!("{core}{padding}"));
                    let fill: String = std::iter::repeat('a').take(n.min(64)).collect();
                    out.push(format!("{padding}{fill}{padding}"));
                }
            }
        }
    }
    // declaration-specific probe strings chosen by the generator (e.g. strings that match / do not match a regex literal)
    for t in &spec.tags {
        if let Some(p) = t.strip_prefix("probe=") {
            out.push(p.to_string());
        }
    }
    out.push("a".repeat(10_000));
    for s in ["Hello World", "  Bob ", "user@example.com", "USER@EXAMPLE.COM ", "abc123", "ABC", "ǅemal", "İstanbul", "STRASSE", "straße", "ΟΔΟΣ", "οδος", "ὈΔΥΣΣΕΎΣ", "a\u{0301}", "\u{FEFF}x"] {
        out.push(s.to_string());
    }
    if let Some(Value::Str(d)) = &spec.default {
        out.push(d.clone());
    }
    let n = match tier {
        Tier::Quick => 2000,
        Tier::Thorough => 50_000,
    };
    for _ in 0..n {
        out.push(random_string(rng, 40));
    }
    out.sort();
    out.dedup();
    out.into_iter().map(Value::Str).collect()
}

/// thorough extra for C11/C01: every single scalar and every pair from CASE_SPACE_SET
pub fn string_unicode_sweep() -> Vec<Value> {
    let mut out = Vec::new();
    for x in 0..0x110000u32 {
        if let Some(c) = char::from_u32(x) {
            out.push(Value::Str(c.to_string()));
        }
    }
    for a in CASE_SPACE_SET {
        for b in CASE_SPACE_SET {
            let mut s = String::new();
            s.push(a);
            s.push(b);
            out.push(Value::Str(s));
        }
    }
    out
}

pub fn list_domain(spec: &Spec, _tier: Tier, rng: &mut Rng) -> Vec<Value> {
    // "other" inner types: what the list means is decided by the glue (kind tag)
    let kind = if spec.tag_value("carrier") == Some("point") { "point" } else { "vec" };
    let mut out = Vec::new();
    match kind {
        "point" => {
            for x in [-100i64, -1, 0, 1, 100] {
                for y in [-100i64, -1, 0, 1, 100] {
                    out.push(Value::List(vec![x, y]));
                }
            }
            for _ in 0..200 {
                out.push(Value::List(vec![rng.next_u64() as i32 as i64, rng.next_u64() as i32 as i64]));
            }
        }
        _ => {
            let atoms = [-1i64, 0, 1, 3, 2, i32::MAX as i64, i32::MIN as i64];
            out.push(Value::List(vec![]));
            for a in atoms {
                out.push(Value::List(vec![a]));
                for b in atoms {
                    out.push(Value::List(vec![a, b]));
                    for c in atoms {
                        out.push(Value::List(vec![a, b, c]));
                    }
                }
            }
            for _ in 0..200 {
                let n = rng.below(8);
                out.push(Value::List((0..n).map(|_| (rng.next_u64() % 21) as i64 - 10).collect()));
            }
        }
    }
    out.sort();
    out.dedup();
    out
}

pub fn domain(spec: &Spec, tier: Tier, seed: u64) -> Vec<Value> {
    let mut rng = Rng::new(seed).derive(&spec.id);
    // generic / other declarations reuse the scalar domains according to their carrier
    match spec.tag_value("carrier") {
        Some("list") | Some("point") => return list_domain(spec, tier, &mut rng),
        Some("opt") => {
            let mut out = vec![Value::List(vec![])];
            for x in [i32::MIN as i64, -7, -1, 0, 1, 7, 13, i32::MAX as i64] {
                out.push(Value::List(vec![x]));
            }
            return out;
        }
        Some("arr3") => {
            let atoms = [-1i64, 0, 1, 3, i32::MAX as i64, i32::MIN as i64];
            let mut out = Vec::new();
            for a in atoms {
                for b in atoms {
                    for c in atoms {
                        out.push(Value::List(vec![a, b, c]));
                    }
                }
            }
            return out;
        }
        Some("blist") => {
            // byte vectors (an inner type some serializers special-case)
            let atoms = [0i64, 1, 2, 3, 13, 127, 128, 255];
            let mut out = vec![Value::List(vec![])];
            for a in atoms {
                out.push(Value::List(vec![a]));
                for b in atoms {
                    out.push(Value::List(vec![a, b]));
                }
            }
            for _ in 0..100 {
                let n = rng.below(12);
                out.push(Value::List((0..n).map(|_| (rng.next_u64() % 256) as i64).collect()));
            }
            out.sort();
            out.dedup();
            return out;
        }
        Some("flist") => {
            // vectors of f64 bit patterns incl. NaN, signed zeros, infinities
            let atoms: Vec<i64> = [0.0f64, -0.0, 1.5, -1.5, f64::NAN, f64::INFINITY, 1e300].iter().map(|x| x.to_bits() as i64).collect();
            let mut out = vec![Value::List(vec![])];
            for a in &atoms {
                out.push(Value::List(vec![*a]));
                for b in &atoms {
                    out.push(Value::List(vec![*a, *b]));
                }
            }
            out.sort();
            out.dedup();
            return out;
        }
        Some("str") => return string_domain(spec, tier, &mut rng),
        Some("i32") => {
            let mut s2 = spec.clone();
            s2.fam = Fam::Int { signed: true, bits: 32 };
            s2.tags.retain(|t| !t.starts_with("carrier="));
            let mut d = int_domain(&s2, tier, &mut rng);
            d.extend([12, 13, 14].map(Value::I));
            return d;
        }
        _ => {}
    }
    match spec.fam {
        Fam::Int { .. } => int_domain(spec, tier, &mut rng),
        Fam::F32 | Fam::F64 => float_domain(spec, tier, &mut rng),
        Fam::Str => string_domain(spec, tier, &mut rng),
        Fam::Other => list_domain(spec, tier, &mut rng),
    }
}

/// strings offered to non-string FromStr (C06)
pub fn parse_strings(spec: &Spec, tier: Tier, seed: u64) -> Vec<String> {
    let mut rng = Rng::new(seed ^ 0xC06).derive(&spec.id);
    let mut out: Vec<String> = Vec::new();
    let dom = domain(spec, Tier::Quick, seed);
    let push_val = |v: &Value, out: &mut Vec<String>| match v {
        Value::I(x) => {
            out.push(format!("{x}"));
            out.push(format!("+{x}"));
        }
        Value::U(x) => {
            out.push(format!("{x}"));
        }
        Value::F32(b) => {
            let x = f32::from_bits(*b);
            out.push(format!("{x}"));
            out.push(format!("{x:e}"));
            out.push(format!("{x:?}"));
        }
        Value::F64(b) => {
            let x = f64::from_bits(*b);
            out.push(format!("{x}"));
            out.push(format!("{x:e}"));
            out.push(format!("{x:?}"));
        }
        Value::Str(s) => out.push(s.clone()),
        Value::List(l) => {
            if l.len() == 2 {
                out.push(format!("({};{})", l[0], l[1]));
            }
        }
    };
    let cap = match tier {
        Tier::Quick => 1500,
        Tier::Thorough => 20_000,
    };
    if dom.len() <= cap {
        for v in &dom {
            push_val(v, &mut out);
        }
    } else {
        // keep the boundary part (domains are sorted: sample evenly + both ends)
        let step = dom.len() / cap + 1;
        for (i, v) in dom.iter().enumerate() {
            if i % step == 0 || i < 40 || i + 40 > dom.len() {
                push_val(v, &mut out);
            }
        }
        for val in &spec.vals {
            if let Some(b) = val.bound() {
                push_val(b, &mut out);
            }
        }
    }
    for s in [
        "", " ", "+5", " 5", "5 ", "-0", "0x10", "1_000", "0", "00", "007", "-", "+", "--1", "+-1", "1e3", "1.0", "1.", ".5", ".",
        "NaN", "nan", "-NaN", "inf", "-inf", "+inf", "infinity", "-Infinity", "INF", "1e400", "-1e400", "1e-400", "1e39", "3.4028236e38",
        "340282366920938463463374607431768211455", "340282366920938463463374607431768211456", "-170141183460469231731687303715884105728",
        "-170141183460469231731687303715884105729", "99999999999999999999999999999999999999999", "-99999999999999999999999999999999999999999",
        "٣", "１", "1\u{0301}", "abc", "true", "(1;2)", "(1;2", "1;2", "( 1;2)", "(0;0)", "(-5;7)", "(2147483648;0)", "\u{FEFF}1", "1\n", "\t1",
        "0.1", "0.30000000000000004", "1e-45", "1e-46", "4.9e-324", "2e-324", "1.7976931348623157e308", "1.7976931348623159e308",
    ] {
        out.push(s.to_string());
    }
    let n = match tier {
        Tier::Quick => 300,
        Tier::Thorough => 5000,
    };
    for _ in 0..n {
        if rng.chance(1, 2) {
            // random ascii numeric-looking
            let len = rng.below(12) + 1;
            let s: String = (0..len).map(|_| *rng.pick(&['0', '1', '2', '5', '9', '-', '+', '.', 'e', ' ', '_'])).collect();
            out.push(s);
        } else {
            out.push(random_string(&mut rng, 8));
        }
    }
    out.sort();
    out.dedup();
    out
}
