//! Value model shared by the oracle, the domains and the glue code.
use std::borrow::Cow;
use std::fmt;

/// Structural copy of an inner value. Floats are kept as bit patterns so that
/// equality is bitwise (-0.0 != 0.0, NaN payloads are visible).
#[derive(Clone, PartialEq, Eq, Hash, PartialOrd, Ord)]
pub enum Value {
    I(i128),
    U(u128),
    F32(u32),
    F64(u64),
    Str(String),
    /// structural encoding of "other" inner types (Vec<i32>, Point, ...)
    List(Vec<i64>),
}

impl fmt::Debug for Value {
    fn fmt(&self, f: &mut fmt::Formatter<'_>) -> fmt::Result {
        match self {
            Value::I(v) => write!(f, "{v}"),
            Value::U(v) => write!(f, "{v}u"),
            Value::F32(b) => write!(f, "f32:{:?}/0x{:08x}", f32::from_bits(*b), b),
            Value::F64(b) => write!(f, "f64:{:?}/0x{:016x}", f64::from_bits(*b), b),
            Value::Str(s) => write!(f, "{:?}", s),
            Value::List(v) => write!(f, "{:?}", v),
        }
    }
}

impl Value {
    /// `x` as a value of the spec's float family
    pub fn f64_or_f32(spec: &crate::spec::Spec, x: f64) -> Value {
        match spec.fam {
            crate::spec::Fam::F32 => Value::F32((x as f32).to_bits()),
            _ => Value::F64(x.to_bits()),
        }
    }
    pub fn f32(x: f32) -> Value {
        Value::F32(x.to_bits())
    }
    pub fn f64(x: f64) -> Value {
        Value::F64(x.to_bits())
    }
    pub fn as_f64(&self) -> Option<f64> {
        match self {
            Value::F32(b) => Some(f32::from_bits(*b) as f64),
            Value::F64(b) => Some(f64::from_bits(*b)),
            _ => None,
        }
    }
    pub fn is_float(&self) -> bool {
        matches!(self, Value::F32(_) | Value::F64(_))
    }
    pub fn is_nan(&self) -> bool {
        self.as_f64().map(|x| x.is_nan()).unwrap_or(false)
    }
    pub fn is_finite_float(&self) -> bool {
        self.as_f64().map(|x| x.is_finite()).unwrap_or(false)
    }
    pub fn as_str(&self) -> Option<&str> {
        match self {
            Value::Str(s) => Some(s),
            _ => None,
        }
    }
    /// JSON-ish rendering for witnesses.
    pub fn show(&self) -> String {
        format!("{:?}", self)
    }
}

/// Conversion between concrete inner types and `Value`.
pub trait Conv: Sized {
    fn to_value(&self) -> Value;
    fn from_value(v: &Value) -> Self;
}

macro_rules! conv_signed {
    ($($t:ty),*) => {$(
        impl Conv for $t {
            fn to_value(&self) -> Value { Value::I(*self as i128) }
            fn from_value(v: &Value) -> Self {
                match v { Value::I(x) => *x as $t, Value::U(x) => *x as $t, _ => panic!("nvrt: bad value kind {:?} for {}", v, stringify!($t)) }
            }
        }
    )*};
}
conv_signed!(i8, i16, i32, i64, i128, isize, u8, u16, u32, u64, usize);

impl Conv for u128 {
    fn to_value(&self) -> Value {
        Value::U(*self)
    }
    fn from_value(v: &Value) -> Self {
        match v {
            Value::U(x) => *x,
            Value::I(x) => *x as u128,
            _ => panic!("nvrt: bad value kind for u128"),
        }
    }
}
impl Conv for f32 {
    fn to_value(&self) -> Value {
        Value::F32(self.to_bits())
    }
    fn from_value(v: &Value) -> Self {
        match v {
            Value::F32(b) => f32::from_bits(*b),
            _ => panic!("nvrt: bad value kind for f32"),
        }
    }
}
impl Conv for f64 {
    fn to_value(&self) -> Value {
        Value::F64(self.to_bits())
    }
    fn from_value(v: &Value) -> Self {
        match v {
            Value::F64(b) => f64::from_bits(*b),
            _ => panic!("nvrt: bad value kind for f64"),
        }
    }
}
impl Conv for String {
    fn to_value(&self) -> Value {
        Value::Str(self.clone())
    }
    fn from_value(v: &Value) -> Self {
        match v {
            Value::Str(s) => s.clone(),
            _ => panic!("nvrt: bad value kind for String"),
        }
    }
}
impl Conv for Cow<'static, str> {
    fn to_value(&self) -> Value {
        Value::Str(self.to_string())
    }
    fn from_value(v: &Value) -> Self {
        match v {
            // even-length strings are offered borrowed (leaked), odd ones owned: both Cow arms get exercised
            Value::Str(s) => {
                if s.len() % 2 == 0 {
                    Cow::Borrowed(Box::leak(s.clone().into_boxed_str()))
                } else {
                    Cow::Owned(s.clone())
                }
            }
            _ => panic!("nvrt: bad value kind for Cow<str>"),
        }
    }
}
impl Conv for Vec<i32> {
    fn to_value(&self) -> Value {
        Value::List(self.iter().map(|x| *x as i64).collect())
    }
    fn from_value(v: &Value) -> Self {
        match v {
            Value::List(l) => l.iter().map(|x| *x as i32).collect(),
            _ => panic!("nvrt: bad value kind for Vec<i32>"),
        }
    }
}

impl Conv for Vec<u8> {
    fn to_value(&self) -> Value {
        Value::List(self.iter().map(|x| *x as i64).collect())
    }
    fn from_value(v: &Value) -> Self {
        match v {
            Value::List(l) => l.iter().map(|x| *x as u8).collect(),
            _ => panic!("nvrt: bad value kind for Vec<u8>"),
        }
    }
}

impl Conv for Option<i32> {
    fn to_value(&self) -> Value {
        Value::List(self.iter().map(|x| *x as i64).collect())
    }
    fn from_value(v: &Value) -> Self {
        match v {
            Value::List(l) => l.first().map(|x| *x as i32),
            _ => panic!("nvrt: bad value kind for Option<i32>"),
        }
    }
}
impl Conv for [i32; 3] {
    fn to_value(&self) -> Value {
        Value::List(self.iter().map(|x| *x as i64).collect())
    }
    fn from_value(v: &Value) -> Self {
        match v {
            Value::List(l) => [l.first().copied().unwrap_or(0) as i32, l.get(1).copied().unwrap_or(0) as i32, l.get(2).copied().unwrap_or(0) as i32],
            _ => panic!("nvrt: bad value kind for [i32; 3]"),
        }
    }
}
impl Conv for Vec<f64> {
    fn to_value(&self) -> Value {
        Value::List(self.iter().map(|x| x.to_bits() as i64).collect())
    }
    fn from_value(v: &Value) -> Self {
        match v {
            Value::List(l) => l.iter().map(|x| f64::from_bits(*x as u64)).collect(),
            _ => panic!("nvrt: bad value kind for Vec<f64>"),
        }
    }
}

/// A user-defined "other" inner type.
#[derive(Debug, Clone, Copy, PartialEq, Eq, PartialOrd, Ord, Hash, Default)]
#[derive(serde::Serialize, serde::Deserialize, arbitrary::Arbitrary)]
pub struct Point {
    pub x: i32,
    pub y: i32,
}
impl fmt::Display for Point {
    fn fmt(&self, f: &mut fmt::Formatter<'_>) -> fmt::Result {
        write!(f, "({};{})", self.x, self.y)
    }
}
impl std::str::FromStr for Point {
    type Err = String;
    fn from_str(s: &str) -> Result<Self, String> {
        let s = s.strip_prefix('(').and_then(|s| s.strip_suffix(')')).ok_or("no parens")?;
        let (a, b) = s.split_once(';').ok_or("no semicolon")?;
        Ok(Point { x: a.parse().map_err(|_| "bad x")?, y: b.parse().map_err(|_| "bad y")? })
    }
}
impl Point {
    /// An inherent `from_str` that deliberately differs from the `FromStr` impl: generated code must go through the trait
    /// (`str::parse`), not through whatever `Inner::from_str` happens to resolve to.
    #[allow(clippy::should_implement_trait)]
    pub fn from_str(_s: &str) -> Result<Point, String> {
        Ok(Point { x: -1, y: -1 })
    }
}
impl Conv for Point {
    fn to_value(&self) -> Value {
        Value::List(vec![self.x as i64, self.y as i64])
    }
    fn from_value(v: &Value) -> Self {
        match v {
            Value::List(l) if l.len() == 2 => Point { x: l[0] as i32, y: l[1] as i32 },
            _ => panic!("nvrt: bad value kind for Point"),
        }
    }
}
