//! Per-declaration report written as one JSON line; aggregated by the Python driver.
use serde::Serialize;
use std::collections::BTreeMap;

#[derive(Serialize, Clone, Debug)]
pub struct Violation {
    /// structured cause class; known findings are keyed on (property, signature)
    pub signature: String,
    pub input: String,
    pub observed: String,
    pub expected: String,
    pub detail: String,
}

#[derive(Serialize, Clone, Debug, Default)]
pub struct DeclReport {
    pub property: String,
    pub decl: String,
    pub type_name: String,
    pub family: String,
    pub executions: u64,
    /// distinct non-trivial classes observed for this declaration (names)
    pub classes: Vec<String>,
    pub hist: BTreeMap<String, u64>,
    pub guards: BTreeMap<String, u64>,
    pub violations: Vec<Violation>,
    pub violation_counts: BTreeMap<String, u64>,
    pub samples: Vec<String>,
    pub exhaustive: Vec<(String, u64)>,
    pub inconclusive: Vec<String>,
}

const MAX_WITNESS_PER_SIG: u64 = 3;

impl DeclReport {
    pub fn new(property: &str, spec: &crate::spec::Spec) -> DeclReport {
        DeclReport {
            property: property.to_string(),
            decl: spec.id.clone(),
            type_name: spec.type_name.clone(),
            family: format!("{:?}", spec.fam),
            ..Default::default()
        }
    }
    pub fn bump(&mut self, key: &str) {
        *self.hist.entry(key.to_string()).or_insert(0) += 1;
    }
    pub fn guard(&mut self, key: &str) {
        *self.guards.entry(key.to_string()).or_insert(0) += 1;
    }
    pub fn guard_add(&mut self, key: &str, n: u64) {
        *self.guards.entry(key.to_string()).or_insert(0) += n;
    }
    pub fn class(&mut self, c: &str) {
        if !self.classes.iter().any(|x| x == c) {
            self.classes.push(c.to_string());
        }
    }
    pub fn sample(&mut self, s: String) {
        if self.samples.len() < 4 {
            self.samples.push(s);
        }
    }
    pub fn violate(&mut self, signature: &str, input: String, observed: String, expected: String, detail: String) {
        let c = self.violation_counts.entry(signature.to_string()).or_insert(0);
        *c += 1;
        if *c <= MAX_WITNESS_PER_SIG {
            self.violations.push(Violation { signature: signature.to_string(), input, observed, expected, detail });
        }
    }
}
