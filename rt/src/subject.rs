//! Object-safe boundary between generated declarations and the monitors.
use crate::spec::Spec;
use crate::value::Value;
use std::cmp::Ordering;
use std::fmt::{Debug, Display};
use std::hash::{Hash, Hasher};
use std::panic::{catch_unwind, AssertUnwindSafe};

#[derive(Clone, Debug, PartialEq)]
pub enum Obs {
    Ok(Value),
    Err { variant: String, display: String },
    Panic(String),
}

impl Obs {
    pub fn is_ok(&self) -> bool {
        matches!(self, Obs::Ok(_))
    }
    pub fn show(&self) -> String {
        match self {
            Obs::Ok(v) => format!("Ok({})", v.show()),
            Obs::Err { variant, .. } => format!("Err({variant})"),
            Obs::Panic(m) => format!("PANIC({})", m.chars().take(160).collect::<String>()),
        }
    }
}

#[derive(Clone, Debug, PartialEq)]
pub enum ParseObs {
    Ok(Value),
    /// `TParseError::Parse(e)`: Debug of e, Display of the whole parse error
    Parse { inner_dbg: String, display: String },
    /// `TParseError::Validate(e)`
    Validate { variant: String, display_inner: String, display: String },
    Panic(String),
}

impl ParseObs {
    pub fn show(&self) -> String {
        match self {
            ParseObs::Ok(v) => format!("Ok({})", v.show()),
            ParseObs::Parse { inner_dbg, .. } => format!("Err(Parse({inner_dbg}))"),
            ParseObs::Validate { variant, .. } => format!("Err(Validate({variant}))"),
            ParseObs::Panic(m) => format!("PANIC({})", m.chars().take(160).collect::<String>()),
        }
    }
}

#[derive(Clone, Debug, Default)]
pub struct Views {
    pub stored: Option<Value>,
    pub as_ref: Option<Value>,
    pub deref: Option<Value>,
    pub borrow: Option<Value>,
    pub borrow_str: Option<Value>,
    pub into: Option<Value>,
    pub clone: Option<Value>,
    pub copy: Option<Value>,
    pub display: Option<Vec<String>>,
    pub display_inner: Vec<String>,
    pub into_iter: Option<Vec<String>>,
    pub ref_iter: Option<Vec<String>>,
    pub inner_iter: Vec<String>,
    /// HashMap<T,_> lookup through the borrowed form found the inserted value
    pub hashmap_lookup: Option<bool>,
    pub btreemap_lookup: Option<bool>,
}

#[derive(Clone, Debug, Default, PartialEq)]
pub struct CmpSide {
    pub eq: Option<(bool, bool)>,
    /// `a == a`, `a != a` on the very same object (identity shortcuts must not change the answer)
    pub eq_same: Option<(bool, bool)>,
    pub pord: Option<(Option<Ordering>, bool, bool, bool, bool)>,
    pub ord: Option<Result<Ordering, String>>,
    pub hash_a: Option<u64>,
}

#[derive(Clone, Debug, Default)]
pub struct CmpObs {
    pub outer: CmpSide,
    pub inner: CmpSide,
    /// hash of the borrowed form (str for strings)
    pub hash_borrowed_a: Option<u64>,
    /// `b.clone_from(&a)`: (what b holds afterwards, what a holds)
    pub clone_from: Option<(Value, Value)>,
}

#[derive(Clone, Copy, Debug, PartialEq, Eq, Hash)]
pub enum Fmt {
    Json,
    Ron,
    MsgPack,
}
pub const FMTS: [Fmt; 3] = [Fmt::Json, Fmt::Ron, Fmt::MsgPack];

#[derive(Clone, Copy, Debug, PartialEq, Eq, Hash)]
pub enum Pos {
    Bare,
    VecElem,
    OptionSome,
    StructField,
    MapValue,
    MapKey,
}

#[derive(Clone, Debug, PartialEq)]
pub enum DeObs {
    /// inner values of every newtype in the container, in order
    Ok(Vec<Value>),
    Err(String),
    Panic(String),
}

#[derive(Clone, Debug, Default)]
pub struct SerObs {
    pub bytes_t: Option<Result<Vec<u8>, String>>,
    pub bytes_inner: Option<Result<Vec<u8>, String>>,
    pub bytes_ref: Option<Result<Vec<u8>, String>>,
    /// inner round trip in this format: from(to(inner)) as Value
    pub inner_roundtrip: Option<Result<Value, String>>,
    /// newtype round trip: from::<T>(to(v)).into_inner()
    pub t_roundtrip: Option<Result<Value, String>>,
    /// RON with `struct_names(true)`: (text of T, text of RefT, T read back from its own text)
    pub ron_named: Option<(Result<String, String>, Result<String, String>, Option<Result<Value, String>>)>,
    /// the same value in container positions: (position, bytes of container<T>, of container<Inner>, of container<RefT>, container<T> read back, container<Inner> read back = the precondition)
    pub nested: Vec<(Pos, Result<Vec<u8>, String>, Result<Vec<u8>, String>, Result<Vec<u8>, String>, Option<DeObs>, Option<Result<Vec<Value>, String>>)>,
}

#[derive(Clone, Debug, PartialEq)]
pub enum ArbObs {
    Ok(Value),
    ArbErr(String),
    Panic(String),
}

pub trait Subject: Sync {
    fn spec(&self) -> &Spec;
    /// `try_new` when validators exist, otherwise `new`
    fn ctor(&self, raw: &Value) -> Obs;
    /// string family: `try_new(&str)` / `new(&str)` (impl Into<String>)
    fn ctor_str(&self, _raw: &str) -> Option<Obs> {
        None
    }
    /// string family: the constructor through other `Into<String>` argument types
    fn ctor_into_variants(&self, _raw: &str) -> Vec<(&'static str, Obs)> {
        vec![]
    }
    fn try_from_inner(&self, _raw: &Value) -> Option<Obs> {
        None
    }
    fn from_inner(&self, _raw: &Value) -> Option<Obs> {
        None
    }
    fn try_from_str(&self, _raw: &str) -> Option<Obs> {
        None
    }
    fn from_str_ref(&self, _raw: &str) -> Option<Obs> {
        None
    }
    /// string family FromStr
    fn parse_string(&self, _raw: &str) -> Option<Obs> {
        None
    }
    /// non-string FromStr
    fn parse(&self, _raw: &str) -> Option<ParseObs> {
        None
    }
    /// the inner type's own FromStr: Ok(value) / Err(Debug of its error)
    fn inner_parse(&self, _raw: &str) -> Option<Result<Value, String>> {
        None
    }
    fn default(&self) -> Option<Obs> {
        None
    }
    /// declarations whose first bound is read from a run-time cell (`poke=` tag): set the cell; false when there is none
    fn poke(&self, _v: i64) -> bool {
        false
    }
    fn views(&self, _raw: &Value) -> Option<Views> {
        None
    }
    fn cmp2(&self, _a: &Value, _b: &Value) -> Option<CmpObs> {
        None
    }
    /// the same observations on values built with `unsafe { new_unchecked(..) }` (declarations carrying the flag)
    fn views_unchecked(&self, _raw: &Value) -> Option<Views> {
        None
    }
    fn cmp2_unchecked(&self, _a: &Value, _b: &Value) -> Option<CmpObs> {
        None
    }
    /// sort the values built from raws (all must be valid) under catch_unwind
    fn sort(&self, _raws: &[Value]) -> Option<Result<Vec<Value>, String>> {
        None
    }
    /// BTreeSet insert-then-lookup: number of inserted values found again
    fn btree(&self, _raws: &[Value]) -> Option<Result<(usize, usize), String>> {
        None
    }
    /// results of `const` evaluation of the constructor on literal inputs
    fn const_results(&self) -> Vec<(Value, Obs)> {
        vec![]
    }
    fn de(&self, _f: Fmt, _p: Pos, _bytes: &[u8]) -> Option<DeObs> {
        None
    }
    /// reference: serde-derived newtype around the inner type, same container
    fn de_ref(&self, _f: Fmt, _p: Pos, _bytes: &[u8]) -> Option<Result<Vec<Value>, String>> {
        None
    }
    /// documents carrying the raw inner value in a container position (inner and reference-newtype encodings)
    fn docs_for(&self, _f: Fmt, _p: Pos, _raw: &Value) -> Option<Vec<Vec<u8>>> {
        None
    }
    fn ser(&self, _f: Fmt, _raw: &Value) -> Option<SerObs> {
        None
    }
    /// recording-serializer traces: (trace of T, trace of inner)
    fn ser_trace(&self, _raw: &Value) -> Option<(Vec<String>, Vec<String>)> {
        None
    }
    /// which Deserializer entry points the impl calls (probing deserializer)
    /// `deserialize_in_place` into a value built from `seed` (or a two-element Vec of it): (call result, contents of the place afterwards)
    fn de_in_place(&self, _f: Fmt, _bytes: &[u8], _seed: &Value, _vec: bool) -> Option<(Result<(), String>, Vec<Value>)> {
        None
    }
    fn de_probe(&self) -> Option<(Vec<String>, Vec<(String, Value)>)> {
        None
    }
    /// the document `[raw]` (a one-element sequence) offered through serde's SeqDeserializer
    fn de_seq_form(&self, _raw: &Value) -> Option<DeObs> {
        None
    }
    fn arb(&self, _bytes: &[u8]) -> Option<ArbObs> {
        None
    }
    /// `Arbitrary::arbitrary_take_rest` (what a fuzz target's last argument / last struct field goes through)
    fn arb_take_rest(&self, _bytes: &[u8]) -> Option<ArbObs> {
        None
    }
}

// ---------------------------------------------------------------- helpers used by glue

thread_local! {
    static LAST_PANIC: std::cell::RefCell<String> = const { std::cell::RefCell::new(String::new()) };
    static GUARD_DEPTH: std::cell::Cell<u32> = const { std::cell::Cell::new(0) };
}

/// install a silent panic hook that remembers the message
pub fn install_panic_hook() {
    std::panic::set_hook(Box::new(|info| {
        let msg = if let Some(s) = info.payload().downcast_ref::<&str>() {
            s.to_string()
        } else if let Some(s) = info.payload().downcast_ref::<String>() {
            s.clone()
        } else {
            "<non-string panic>".to_string()
        };
        let loc = info.location().map(|l| format!(" @{}:{}", l.file(), l.line())).unwrap_or_default();
        if GUARD_DEPTH.with(|d| d.get()) == 0 {
            // a panic of the harness itself, not of the code under observation
            eprintln!("nvrt: harness panic: {msg}{loc}");
        }
        LAST_PANIC.with(|p| *p.borrow_mut() = format!("{msg}{loc}"));
    }));
}

pub fn last_panic() -> String {
    LAST_PANIC.with(|p| p.borrow().clone())
}

pub fn guarded<R>(f: impl FnOnce() -> R) -> Result<R, String> {
    GUARD_DEPTH.with(|d| d.set(d.get() + 1));
    let r = catch_unwind(AssertUnwindSafe(f));
    GUARD_DEPTH.with(|d| d.set(d.get() - 1));
    match r {
        Ok(r) => Ok(r),
        Err(_) => Err(last_panic()),
    }
}

/// observe a fallible constructor-like call
pub fn obs<T, E: Display>(f: impl FnOnce() -> Result<T, E>, inner: impl FnOnce(T) -> Value, vname: impl FnOnce(&E) -> String) -> Obs {
    match guarded(f) {
        Err(p) => Obs::Panic(p),
        Ok(Ok(t)) => match guarded(|| inner(t)) {
            Ok(v) => Obs::Ok(v),
            Err(p) => Obs::Panic(p),
        },
        Ok(Err(e)) => {
            // the same error under formatting flags (read by the C16 monitor right after the call)
            let alt = guarded(|| vec![("{:.1}", format!("{:.1}", e)), ("{:.0}", format!("{:.0}", e)), ("{:.3}", format!("{:.3}", e)), ("{:+}", format!("{:+}", e)), ("{:#}", format!("{:#}", e)), ("{:08}", format!("{:08}", e))]);
            LAST_ERR_FORMATS.with(|c| *c.borrow_mut() = alt.unwrap_or_default());
            Obs::Err { variant: vname(&e), display: e.to_string() }
        }
    }
}

thread_local! {
    static LAST_ERR_FORMATS: std::cell::RefCell<Vec<(&'static str, String)>> = const { std::cell::RefCell::new(Vec::new()) };
}

/// Display of the error returned by the most recent `obs` call on this thread under several format specs
pub fn last_error_formats() -> Vec<(&'static str, String)> {
    LAST_ERR_FORMATS.with(|c| c.borrow().clone())
}

/// observe an infallible constructor-like call
pub fn obs_ok<T>(f: impl FnOnce() -> T, inner: impl FnOnce(T) -> Value) -> Obs {
    match guarded(f) {
        Err(p) => Obs::Panic(p),
        Ok(t) => Obs::Ok(inner(t)),
    }
}

pub fn dbg_name<E: Debug>(e: &E) -> String {
    format!("{:?}", e)
}

pub fn fmt_all<D: Display + ?Sized>(d: &D) -> Vec<String> {
    vec![
        format!("{}", d),
        format!("{:>12}", d),
        format!("{:<6}|", d),
        format!("{:+}", d),
        format!("{:010.3}", d),
        format!("{:^9.1}", d),
        d.to_string(),
        format!("{:4}|", d),
        format!("{:>3}|", d),
        format!("{:-^5}", d),
        format!("{:.2}", d),
    ]
}

pub fn side_eq<X: PartialEq + ?Sized>(a: &X, b: &X) -> (bool, bool) {
    (a == b, a != b)
}
#[allow(clippy::type_complexity)]
pub fn side_pord<X: PartialOrd + ?Sized>(a: &X, b: &X) -> (Option<Ordering>, bool, bool, bool, bool) {
    (a.partial_cmp(b), a < b, a <= b, a > b, a >= b)
}
pub fn side_ord<X: Ord>(a: &X, b: &X) -> Result<Ordering, String> {
    guarded(|| a.cmp(b))
}
pub fn side_hash<X: Hash + ?Sized>(a: &X) -> u64 {
    // DefaultHasher::new() is SipHash-1-3 with fixed zero keys: deterministic
    #[allow(deprecated)]
    let mut h = std::hash::SipHasher::new();
    a.hash(&mut h);
    h.finish()
}
pub fn iter_dbg<I: IntoIterator>(it: I) -> Vec<String>
where
    I::Item: Debug,
{
    it.into_iter().map(|x| format!("{:?}", x)).collect()
}
