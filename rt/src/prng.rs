/// xorshift64* — all randomness in the Rust side flows from VERIF_SEED through this.
#[derive(Clone)]
pub struct Rng(u64);

impl Rng {
    pub fn new(seed: u64) -> Rng {
        let mut r = Rng(seed ^ 0x9E37_79B9_7F4A_7C15);
        if r.0 == 0 {
            r.0 = 0xDEAD_BEEF_CAFE_F00D;
        }
        for _ in 0..8 {
            r.next_u64();
        }
        r
    }
    /// derive an independent stream from a string key (declaration id)
    pub fn derive(&self, key: &str) -> Rng {
        let mut h: u64 = 0xcbf29ce484222325;
        for b in key.as_bytes() {
            h ^= *b as u64;
            h = h.wrapping_mul(0x100000001b3);
        }
        Rng::new(self.0 ^ h)
    }
    pub fn next_u64(&mut self) -> u64 {
        let mut x = self.0;
        x ^= x >> 12;
        x ^= x << 25;
        x ^= x >> 27;
        self.0 = x;
        x.wrapping_mul(0x2545_F491_4F6C_DD1D)
    }
    pub fn next_u128(&mut self) -> u128 {
        ((self.next_u64() as u128) << 64) | self.next_u64() as u128
    }
    pub fn below(&mut self, n: u64) -> u64 {
        if n == 0 { 0 } else { self.next_u64() % n }
    }
    pub fn chance(&mut self, num: u64, den: u64) -> bool {
        self.below(den) < num
    }
    pub fn pick<'a, T>(&mut self, xs: &'a [T]) -> &'a T {
        &xs[self.below(xs.len() as u64) as usize]
    }
}
