#!/usr/bin/env python3
"""Confirm an independently written breaking change and find out which checks report it.
usage: selftest/confirm_seeded.py <change-dir> <worktree> <property-id> <seeded-id> [--checks C01,C02,...]
 1. apply <change-dir>/patch.diff in <worktree>; run the pinned suite there (must pass)
 2. run the demonstration with the change (must fail) and without it (must pass)
 3. run the checks with VERIF_REPO=<worktree> while the change is applied
 4. write /verif/seeded/<seeded-id>/{patch.diff, demo/, notes.md, meta.json}; leave the worktree clean."""
import json, os, shutil, subprocess, sys, time

change, wt, prop, sid = sys.argv[1:5]
checks = None
if "--checks" in sys.argv:
    checks = sys.argv[sys.argv.index("--checks") + 1].split(",")
VERIF = os.path.dirname(os.path.dirname(os.path.abspath(__file__)))
ALL = ["C%02d" % i for i in range(1, 17)]
checks = checks or ALL
env = dict(os.environ, CARGO_NET_OFFLINE="true", CARGO_TARGET_DIR="/tmp/seed-target-confirm-" + os.path.basename(wt))


def sh(cmd, cwd=None, e=None, timeout=3000):
    p = subprocess.run(cmd, cwd=cwd, env=e or env, shell=isinstance(cmd, str), capture_output=True, text=True, timeout=timeout)
    return p.returncode, p.stdout + p.stderr


def clean():
    sh("git checkout -- . && git clean -fdq", cwd=wt)


def find_demo():
    d0 = os.path.join(change, "demo")
    if os.path.isdir(d0) and (os.path.exists(os.path.join(d0, "Cargo.toml")) or os.path.exists(os.path.join(d0, "check.sh")) or os.path.exists(os.path.join(d0, "run.sh"))):
        return d0
    for root, dirs, files in os.walk(change):
        if "Cargo.toml" in files and "target" not in root:
            return root
    return None


def run_demo(demo):
    for script in ("check.sh", "run.sh"):
        if os.path.exists(os.path.join(demo, script)):
            rc, out = sh("bash %s" % script, cwd=demo)
            return rc, out[-1500:]
    # prefer `cargo test` if there are tests, else `cargo run`
    has_main = os.path.exists(os.path.join(demo, "src", "main.rs"))
    cmd = "cargo run --offline -q" if has_main else "cargo test --offline -q"
    rc, out = sh(cmd, cwd=demo)
    if has_main and rc == 0:
        # also accept demos whose tests live next to main
        pass
    return rc, out[-1500:]


meta = {"id": sid, "property": prop, "source": change, "confirmed_at": time.strftime("%Y-%m-%d %H:%M:%S")}
clean()
patch = os.path.join(change, "patch.diff")
rc, out = sh(["git", "apply", "--whitespace=nowarn", patch], cwd=wt)
if rc != 0:
    print("PATCH DOES NOT APPLY", out)
    sys.exit(3)
rc, out = sh("cargo test --workspace --no-fail-fast --offline 2>&1 | grep -E '^test result|FAILED|^error' ", cwd=wt)
passed = sum(int(l.split(" passed")[0].split()[-1]) for l in out.splitlines() if l.startswith("test result"))
failed = sum(int(l.split(" failed")[0].split()[-1]) for l in out.splitlines() if l.startswith("test result"))
meta["pinned_suite_with_change"] = {"passed": passed, "failed": failed, "errors": [l for l in out.splitlines() if l.startswith("error")][:3]}
print("suite with change: passed=%d failed=%d" % (passed, failed))
demo = find_demo()
if demo:
    rc_with, out_with = run_demo(demo)
    meta["demo_with_change"] = {"rc": rc_with, "tail": out_with[-600:]}
    print("demo with change: rc=%d" % rc_with)
else:
    print("no cargo demo found")
    meta["demo_with_change"] = None
# checks against the changed tree
results = {}
env2 = dict(os.environ, VERIF_REPO=wt)
for c in checks:
    p = subprocess.run([os.path.join(VERIF, "nvcheck"), "check", c, "--tier", "quick"], cwd=VERIF, env=env2, capture_output=True, text=True)
    sigs = [l.strip()[:260] for l in p.stdout.splitlines() if l.strip().startswith("signature=")]
    results[c] = {"exit": p.returncode, "signatures": sigs[:4]}
    print("check %s exit=%d %s" % (c, p.returncode, sigs[:1]))
old_meta_path = os.path.join(VERIF, "seeded", sid, "meta.json")
if "--checks" in sys.argv and os.path.exists(old_meta_path):
    # re-confirmation after a strengthening: keep the first full run, overlay the re-run checks
    old = json.load(open(old_meta_path))
    meta["first_run"] = old.get("first_run") or {"caught_by": old.get("caught_by"), "exits": {c: r["exit"] for c, r in old.get("checks", {}).items()}}
    merged = dict(old.get("checks", {}))
    merged.update(results)
    results = merged
    meta["rechecked"] = sorted(set(old.get("rechecked", [])) | set(checks))
meta["checks"] = results
meta["caught_by"] = [c for c, r in results.items() if r["exit"] == 1]
clean()
if demo:
    rc_without, out_without = run_demo(demo)
    meta["demo_without_change"] = {"rc": rc_without, "tail": out_without[-300:]}
    print("demo without change: rc=%d" % rc_without)
dst = os.path.join(VERIF, "seeded", sid)
shutil.rmtree(dst, ignore_errors=True)
os.makedirs(dst)
shutil.copy(patch, os.path.join(dst, "patch.diff"))
if os.path.exists(os.path.join(change, "notes.md")):
    shutil.copy(os.path.join(change, "notes.md"), os.path.join(dst, "notes.md"))
if demo:
    shutil.copytree(demo, os.path.join(dst, "demo"), ignore=shutil.ignore_patterns("target", "Cargo.lock"))
with open(os.path.join(dst, "meta.json"), "w") as f:
    json.dump(meta, f, indent=1)
print("caught by:", meta["caught_by"])
