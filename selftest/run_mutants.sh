#!/bin/bash
# sensitivity sweep: every mutant of MAP.tsv against the checks that must report it
cd "$(dirname "$0")/.."
grep -v '^#' selftest/mutants/MAP.tsv | while IFS=$'\t' read -r name checks mode; do
  [ -n "$ONLY" ] && [[ ! "$name" =~ $ONLY ]] && continue
  flag=""; [ "$mode" = "reverse" ] && flag="--reverse"
  res=$(selftest/mutate.py selftest/mutants/$name.patch $flag --checks $checks 2>&1 | grep -E "^check|PATCH FAILED" | tr '\n' ' ')
  echo "$name [$mode] -> $res"
done
rm -rf /tmp/nvmut-scratch
