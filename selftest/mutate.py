#!/usr/bin/env python3
"""Sensitivity self-test (not a registered check).
usage: selftest/mutate.py <patch-or-sed-spec> --checks C01,C03 [--tests] [--tier quick]
Copies /repo to a scratch dir outside /repo and /verif, applies the patch, optionally runs the pinned
test-suite, runs the named checks with VERIF_REPO=<scratch>, prints exit codes, removes the scratch copy."""
import argparse, os, shutil, subprocess, sys, tempfile, json

ap = argparse.ArgumentParser()
ap.add_argument("patch")
ap.add_argument("--checks", required=True)
ap.add_argument("--tests", action="store_true")
ap.add_argument("--tier", default="quick")
ap.add_argument("--keep", action="store_true")
ap.add_argument("--reverse", action="store_true", help="apply the patch in reverse (revert of a fix)")
a = ap.parse_args()
VERIF = os.path.dirname(os.path.dirname(os.path.abspath(__file__)))
scratch = "/tmp/nvmut-scratch"   # fixed path: cargo fingerprints of earlier mutants are overwritten, not accumulated
shutil.rmtree(scratch, ignore_errors=True)
os.makedirs(scratch)
try:
    subprocess.check_call(["rsync", "-a", "--exclude", "target", "--exclude", ".git", "/repo/", scratch + "/"])
    cmd = ["git", "apply"] + (["-R"] if a.reverse else []) + ["--directory", "", os.path.abspath(a.patch)]
    r = subprocess.run(["patch", "-p1"] + (["-R"] if a.reverse else []) + ["-i", os.path.abspath(a.patch)], cwd=scratch, capture_output=True, text=True)
    if r.returncode != 0:
        print("PATCH FAILED", r.stdout, r.stderr)
        sys.exit(3)
    env = dict(os.environ, CARGO_NET_OFFLINE="true", CARGO_TARGET_DIR="/tmp/nvmut-target")
    if a.tests:
        t = subprocess.run(["cargo", "test", "--workspace", "--no-fail-fast", "--offline", "-q"], cwd=scratch, env=env, capture_output=True, text=True)
        failed = [l for l in t.stdout.splitlines() if "FAILED" in l or "failed" in l]
        print("pinned tests: rc=%d %s" % (t.returncode, failed[:5]))
    env2 = dict(os.environ, VERIF_REPO=scratch)
    for c in a.checks.split(","):
        p = subprocess.run([os.path.join(VERIF, "nvcheck"), "check", c, "--tier", a.tier], cwd=VERIF, env=env2, capture_output=True, text=True)
        lines = [l for l in p.stdout.splitlines() if l.startswith(("VIOLATION", "KNOWN-FINDING", "INCONCLUSIVE", "HELD", "  signature"))]
        print("check %s: exit=%d" % (c, p.returncode))
        for l in lines[:8]:
            print("   " + l[:300])
finally:
    if not a.keep:
        shutil.rmtree(scratch, ignore_errors=True)
