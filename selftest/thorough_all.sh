#!/bin/bash
cd "$(dirname "$0")/.."
for p in C02 C12 C13 C14 C15 C16 C05 C06 C07 C08 C10 C04 C03 C09 C11 C01; do
  out=$(VERIF_SEED=0 ./nvcheck check $p --tier thorough 2>/dev/null); rc=$?
  echo "seed=0 $p rc=$rc $(echo "$out" | tail -1 | cut -c1-140)"
  if [ $rc -ne 0 ]; then echo "$out" | grep -E "VIOLATION|INCONCLUSIVE|signature" | head -5 | cut -c1-300; fi
done
