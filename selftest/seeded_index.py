#!/usr/bin/env python3
"""Regenerate seeded/INDEX.md from seeded/*/meta.json."""
import json, os, glob
VERIF = os.path.dirname(os.path.dirname(os.path.abspath(__file__)))
rows = []
for m in sorted(glob.glob(os.path.join(VERIF, "seeded", "*", "meta.json"))):
    j = json.load(open(m))
    sid = j["id"]
    notes = os.path.join(os.path.dirname(m), "notes.md")
    title = ""
    if os.path.exists(notes):
        for line in open(notes):
            if line.strip().startswith("#"):
                title = line.strip("# \n")
                break
    suite = j.get("pinned_suite_with_change", {})
    dw, dwo = j.get("demo_with_change") or {}, j.get("demo_without_change") or {}
    caught = j.get("caught_by", [])
    incon = [c for c, r in j.get("checks", {}).items() if r["exit"] == 2]
    first_sig = ""
    for c in caught:
        sigs = j["checks"][c]["signatures"]
        if sigs:
            first_sig = sigs[0].split(" decl=")[0].replace("signature=", "")
            break
    rows.append((sid, j["property"], title[:90], "%s/%s" % (suite.get("passed"), suite.get("failed")), "%s / %s" % (dw.get("rc"), dwo.get("rc")), ", ".join(caught) or "**none**",
                 first_sig[:80], ", ".join(incon)))
with open(os.path.join(VERIF, "seeded", "INDEX.md"), "w") as f:
    f.write("# Independently seeded breaking changes\n\nWritten by fresh sub-agents that saw only one property's text and a scratch worktree of greyblake/nutype (never /verif).\n"
            "Each was confirmed by `selftest/confirm_seeded.py`: the patch applies to HEAD, the pinned suite still passes with it, the demonstration behaves differently with and\n"
            "without it, and all 16 quick checks were run against the changed tree (`VERIF_REPO`). `demo rc` = exit code with / without the change (for C05 the kept demo is the\n"
            "client program that must not compile, so 0 / 101 means \"compiles only with the change\").\n\n"
            "| id | property | change | suite pass/fail | demo rc with / without | caught by | first signature | inconclusive |\n|---|---|---|---|---|---|---|---|\n")
    for r in rows:
        f.write("| " + " | ".join(str(x).replace("|", "/") for x in r) + " |\n")
print("rows", len(rows), "missed", [r[0] for r in rows if r[5] == "**none**"])
