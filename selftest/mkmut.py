#!/usr/bin/env python3
"""selftest/mkmut.py <name> <repo-relative-file> <old> <new> [--count N]: create selftest/mutants/<name>.patch"""
import sys, os, subprocess, tempfile, shutil
name, rel, old, new = sys.argv[1:5]
src = open(os.path.join("/repo", rel)).read()
assert old in src, "old text not found"
cnt = src.count(old)
if "--all" not in sys.argv:
    assert cnt == 1, "old text occurs %d times" % cnt
d = tempfile.mkdtemp()
try:
    a = os.path.join(d, "a", rel); b = os.path.join(d, "b", rel)
    os.makedirs(os.path.dirname(a)); os.makedirs(os.path.dirname(b))
    open(a, "w").write(src); open(b, "w").write(src.replace(old, new))
    r = subprocess.run(["diff", "-u", os.path.join("a", rel), os.path.join("b", rel)], cwd=d, capture_output=True, text=True)
    out = os.path.join(os.path.dirname(os.path.abspath(__file__)), "mutants", name + ".patch")
    open(out, "w").write(r.stdout)
    print("wrote", out, len(r.stdout.splitlines()), "lines")
finally:
    shutil.rmtree(d)
