#!/usr/bin/env python3
"""Re-run only the demonstration of a seeded change in the worktree path its demo was written against and update meta.json.
usage: selftest/confirm_demo.py <seeded-id> <change-dir> <worktree-path>"""
import json, os, subprocess, sys
sid, change, wt = sys.argv[1:4]
VERIF = os.path.dirname(os.path.dirname(os.path.abspath(__file__)))
sys.argv = [sys.argv[0], change, wt, "x", sid]
env = dict(os.environ, CARGO_NET_OFFLINE="true", CARGO_TARGET_DIR="/tmp/seed-target-confirm-" + os.path.basename(wt))
def sh(cmd, cwd=None):
    p = subprocess.run(cmd, cwd=cwd, env=env, shell=isinstance(cmd, str), capture_output=True, text=True)
    return p.returncode, p.stdout + p.stderr
if not os.path.isdir(wt):
    print(sh(["git", "-C", "/repo", "worktree", "add", "-f", wt, "HEAD"]))
sh("git checkout -- . && git clean -fdq", cwd=wt)
demo = os.path.join(change, "demo")
def run_demo():
    for script in ("check.sh", "run.sh"):
        if os.path.exists(os.path.join(demo, script)):
            return sh("bash %s" % script, cwd=demo)
    has_main = os.path.exists(os.path.join(demo, "src", "main.rs"))
    return sh("cargo run --offline -q" if has_main else "cargo test --offline -q", cwd=demo)
rc, out = sh(["git", "apply", "--whitespace=nowarn", os.path.join(change, "patch.diff")], cwd=wt)
assert rc == 0, out
rc_with, out_with = run_demo()
sh("git checkout -- . && git clean -fdq", cwd=wt)
rc_without, out_without = run_demo()
mp = os.path.join(VERIF, "seeded", sid, "meta.json")
m = json.load(open(mp))
m["demo_with_change"] = {"rc": rc_with, "tail": out_with[-600:]}
m["demo_without_change"] = {"rc": rc_without, "tail": out_without[-300:]}
m["demo_confirmed_in"] = wt
json.dump(m, open(mp, "w"), indent=1)
print(sid, "demo rc with/without:", rc_with, rc_without)
