#!/bin/bash
# run every check at several seeds on the unchanged tree; print exit codes (all must be 0)
cd "$(dirname "$0")/.."
TIER=${TIER:-quick}
for seed in ${SEEDS:-0 1 7 12345}; do
  for p in C01 C02 C03 C04 C05 C06 C07 C08 C09 C10 C11 C12 C13 C14 C15 C16; do
    out=$(VERIF_SEED=$seed ./nvcheck check $p --tier $TIER 2>/dev/null)
    rc=$?
    echo "seed=$seed $p rc=$rc $(echo "$out" | tail -1 | cut -c1-140)"
    if [ $rc -ne 0 ]; then echo "$out" | grep -E "VIOLATION|INCONCLUSIVE|signature" | head -5 | cut -c1-300; fi
  done
done
